//! K-slice crate for C23 (what a search may disclose).  Generated on every run from /repo, text
//! unchanged:
//!   slice_types.rs  server/access/mod.rs :: enum AccessSrchResult; server/access/search.rs ::
//!                   enum SearchResult; server/access/profiles.rs :: enum AccessControlReceiverCondition
//!   slice_fns.rs    server/access/search.rs :: apply_search_access, search_filter_entry,
//!                   search_oauth2_filter_entry, search_applications_filter_entry,
//!                   search_sync_account_filter_entry; server/access/mod.rs :: the entry-release
//!                   statement of filter_entries and the attribute-reduction statement of
//!                   search_filter_entry_attributes
//! Models: attribute / class / uuid sets as bitmasks over small vocabularies (every attribute and
//! class the sliced code names, plus generic ones); the entry and the identity as the fields
//! read; a search profile as its attribute set + receiver condition + a symbolic "target filter
//! matches this entry" bit; LazyLock as a thunk; migration tables as empty stubs (the Migration
//! identity is outside the claim).
#![allow(dead_code, unused_imports, unused_variables, unused_macros, static_mut_refs, non_upper_case_globals)]

use std::ops::Sub;
use std::sync::Arc;

macro_rules! trace { ($($t:tt)*) => { () }; }
macro_rules! debug { ($($t:tt)*) => { () }; }
macro_rules! warn { ($($t:tt)*) => { () }; }
macro_rules! error { ($($t:tt)*) => { () }; }
macro_rules! security_access { ($($t:tt)*) => { () }; }
macro_rules! security_debug { ($($t:tt)*) => { () }; }
macro_rules! security_critical { ($($t:tt)*) => { () }; }
macro_rules! btreeset {
    ($($e:expr),+ $(,)?) => {{
        let mut x = BTreeSet::new();
        $( x.insert($e); )+
        x
    }};
}

include!("/verif/models/shim/bitset.rs");

#[derive(Clone, Copy, Debug, PartialEq, Eq, PartialOrd, Ord)]
#[repr(u8)]
pub enum Attribute {
    Class,
    DisplayName,
    Uuid,
    Name,
    OAuth2RsOriginLanding,
    Image,
    LinkedGroup,
    SyncCredentialPortal,
    OAuth2RsScopeMap,
    EntryManagedBy,
    SyncParentUuid,
    Mail,
    PrimaryCredential,
    MemberOf,
}
pub const N_ATTRS: u8 = 14;
pub const ALL_ATTRS: [Attribute; N_ATTRS as usize] = [
    Attribute::Class,
    Attribute::DisplayName,
    Attribute::Uuid,
    Attribute::Name,
    Attribute::OAuth2RsOriginLanding,
    Attribute::Image,
    Attribute::LinkedGroup,
    Attribute::SyncCredentialPortal,
    Attribute::OAuth2RsScopeMap,
    Attribute::EntryManagedBy,
    Attribute::SyncParentUuid,
    Attribute::Mail,
    Attribute::PrimaryCredential,
    Attribute::MemberOf,
];
impl SmallKey for Attribute {
    const N: u8 = N_ATTRS;
    fn idx(&self) -> u8 {
        *self as u8
    }
    fn table<'t>() -> &'t [Self]
    where
        Self: 't,
    {
        &ALL_ATTRS
    }
}
impl AsRef<Attribute> for Attribute {
    fn as_ref(&self) -> &Attribute {
        self
    }
}

#[derive(Clone, Copy, Debug, PartialEq, Eq)]
#[repr(u8)]
pub enum EntryClass {
    Account,
    OAuth2ResourceServer,
    Application,
    SyncAccount,
    SyncObject,
    Person,
    Object,
    Other,
}
pub const N_CLASSES: u8 = 8;
/// class names as one-letter words (index <-> text)
pub const CLASS_WORDS: [&str; N_CLASSES as usize] = ["a", "b", "c", "d", "e", "f", "g", "h"];
fn word_idx(s: &str) -> u8 {
    let b = s.as_bytes();
    if b.len() == 1 && b[0] >= b'a' && b[0] < b'a' + N_CLASSES {
        b[0] - b'a'
    } else {
        N_CLASSES - 1
    }
}
/// iutf8 class names: the class id
#[derive(Clone, Copy, Debug, PartialEq, Eq, PartialOrd, Ord)]
pub struct String(pub u8);
impl String {
    pub fn as_str(&self) -> &'static str {
        CLASS_WORDS[(self.0 % N_CLASSES) as usize]
    }
}
impl SmallKey for String {
    const N: u8 = N_CLASSES;
    fn idx(&self) -> u8 {
        self.0 % N_CLASSES
    }
    fn table<'t>() -> &'t [Self]
    where
        Self: 't,
    {
        &ALL_STRINGS
    }
}
pub const ALL_STRINGS: [String; N_CLASSES as usize] = {
    let mut a = [String(0); N_CLASSES as usize];
    let mut i = 0;
    while i < N_CLASSES as usize {
        a[i] = String(i as u8);
        i += 1;
    }
    a
};
pub type AttrString = String;
impl<'a> SmallKey for &'a str {
    const N: u8 = N_CLASSES;
    fn idx(&self) -> u8 {
        word_idx(self)
    }
    fn table<'t>() -> &'t [Self]
    where
        Self: 't,
    {
        &CLASS_WORDS
    }
}
impl KeyBorrow<str> for String {
    fn idx_of(q: &str) -> u8 {
        word_idx(q)
    }
}
impl<'a> KeyBorrow<str> for &'a str {
    fn idx_of(q: &str) -> u8 {
        word_idx(q)
    }
}
impl From<EntryClass> for &'static str {
    fn from(c: EntryClass) -> &'static str {
        CLASS_WORDS[c as usize]
    }
}
impl EntryClass {
    pub fn to_string(&self) -> String {
        String(*self as u8)
    }
}
impl From<EntryClass> for String {
    fn from(c: EntryClass) -> String {
        String(c as u8)
    }
}
#[derive(Clone, Copy, Debug, PartialEq, Eq)]
pub struct PartialValue(pub u8);
impl From<EntryClass> for PartialValue {
    fn from(c: EntryClass) -> PartialValue {
        PartialValue(c as u8)
    }
}

#[derive(Clone, Copy, Debug, PartialEq, Eq, PartialOrd, Ord)]
pub struct Uuid(pub u8);
impl SmallKey for Uuid {
    const N: u8 = 4;
    fn idx(&self) -> u8 {
        self.0 % 4
    }
    fn table<'t>() -> &'t [Self]
    where
        Self: 't,
    {
        &[Uuid(0), Uuid(1), Uuid(2), Uuid(3)]
    }
}
/// the greatest built-in uuid; entry uuids 0..=UUID_ANONYMOUS are the system range
pub const UUID_ANONYMOUS: Uuid = Uuid(1);

pub struct LazyLock<T> {
    f: fn() -> T,
}
impl<T> LazyLock<T> {
    pub const fn new(f: fn() -> T) -> Self {
        LazyLock { f }
    }
}
impl<T> core::ops::Deref for LazyLock<T> {
    type Target = T;
    fn deref(&self) -> &T {
        std::boxed::Box::leak(std::boxed::Box::new((self.f)()))
    }
}

#[derive(Clone, Copy, Debug, PartialEq, Eq)]
pub enum AccessScope {
    ReadOnly,
    ReadWrite,
    Synchronise,
}
#[derive(Clone, Copy, Debug, PartialEq, Eq)]
pub enum InternalRole {
    System,
    Migration,
    AccountRequest,
    MessageQueue,
}
/// the entry behind a user identity, as far as the search rules read it
#[derive(Clone, Copy, Debug)]
pub struct UserEntry {
    pub uuid: Uuid,
    pub classes: Option<BTreeSet<String>>,
    pub sync_parent: Option<Uuid>,
}
impl UserEntry {
    pub fn get_uuid(&self) -> Uuid {
        self.uuid
    }
    pub fn get_ava_as_iutf8(&self, a: Attribute) -> Option<&BTreeSet<String>> {
        match a {
            Attribute::Class => self.classes.as_ref(),
            _ => None,
        }
    }
    pub fn get_ava_single_refer(&self, a: Attribute) -> Option<Uuid> {
        match a {
            Attribute::SyncParentUuid => self.sync_parent,
            _ => None,
        }
    }
    pub fn get_uuid2rdn(&self) -> u8 {
        0
    }
}
#[derive(Clone, Copy, Debug)]
pub struct IdentUser {
    pub entry: UserEntry,
    pub memberof: Option<BTreeSet<Uuid>>,
}
#[derive(Clone, Copy, Debug)]
pub enum IdentType {
    User(IdentUser),
    Synch(Uuid),
    Internal(InternalRole),
}
pub struct Identity {
    pub origin: IdentType,
    pub scope: AccessScope,
}
impl Identity {
    pub fn access_scope(&self) -> AccessScope {
        self.scope
    }
    pub fn get_uuid(&self) -> Uuid {
        match &self.origin {
            IdentType::Internal(_) => Uuid(0),
            IdentType::User(u) => u.entry.uuid,
            IdentType::Synch(u) => *u,
        }
    }
    pub fn get_memberof(&self) -> Option<&BTreeSet<Uuid>> {
        match &self.origin {
            IdentType::Internal(_) | IdentType::Synch(_) => None,
            IdentType::User(u) => u.memberof.as_ref(),
        }
    }
}
impl core::fmt::Display for Identity {
    fn fmt(&self, _f: &mut core::fmt::Formatter<'_>) -> core::fmt::Result {
        Ok(())
    }
}

/// oauth2_rs_scope_map: group uuid -> scopes; only the key set is read
#[derive(Clone, Copy)]
pub struct ScopeMaps {
    pub groups: BTreeSet<Uuid>,
}
impl ScopeMaps {
    pub fn keys(&self) -> BitIter<'_, Uuid> {
        self.groups.iter()
    }
}
pub struct EntrySealedCommitted {
    pub uuid: Uuid,
    pub classes: Option<BTreeSet<String>>,
    pub managed_by: Option<BTreeSet<Uuid>>,
    pub scope_maps: Option<ScopeMaps>,
    pub linked_group: Option<Uuid>,
    /// every attribute the stored entry carries
    pub present: BTreeSet<Attribute>,
    /// for each profile i: does its target filter match this entry (symbolic)
    pub target_match: [bool; 2],
}
pub struct FilterRef(pub usize);
impl EntrySealedCommitted {
    pub fn get_uuid(&self) -> Uuid {
        self.uuid
    }
    pub fn get_ava_as_iutf8(&self, a: Attribute) -> Option<&BTreeSet<String>> {
        match a {
            Attribute::Class => self.classes.as_ref(),
            _ => None,
        }
    }
    pub fn get_ava_as_oauthscopemaps(&self, a: Attribute) -> Option<&ScopeMaps> {
        match a {
            Attribute::OAuth2RsScopeMap => self.scope_maps.as_ref(),
            _ => None,
        }
    }
    pub fn get_ava_refer(&self, a: Attribute) -> Option<&BTreeSet<Uuid>> {
        match a {
            Attribute::EntryManagedBy => self.managed_by.as_ref(),
            _ => None,
        }
    }
    pub fn get_ava_single_refer(&self, a: Attribute) -> Option<Uuid> {
        match a {
            Attribute::LinkedGroup => self.linked_group,
            _ => None,
        }
    }
    pub fn entry_match_no_index(&self, f: &FilterRef) -> bool {
        self.target_match[f.0 % 2]
    }
    pub fn get_display_id(&self) -> u8 {
        0
    }
    /// Entry::reduce_attributes keeps the attributes of the entry that are in `allowed`
    pub fn reduce_attributes(&self, allowed: &BTreeSet<Attribute>, _eff: Option<std::boxed::Box<AccessEffectivePermission>>) -> EntryReducedCommitted {
        EntryReducedCommitted { uuid: self.uuid, attrs: &self.present & allowed }
    }
}
pub struct AccessEffectivePermission;
pub struct EntryReducedCommitted {
    pub uuid: Uuid,
    pub attrs: BTreeSet<Attribute>,
}

pub struct AcpName;
impl core::fmt::Display for AcpName {
    fn fmt(&self, _f: &mut core::fmt::Formatter<'_>) -> core::fmt::Result {
        Ok(())
    }
}
pub struct AccessControlProfileInner {
    pub name: AcpName,
}
pub struct AccessControlSearch {
    pub acp: AccessControlProfileInner,
    pub attrs: BTreeSet<Attribute>,
}
pub enum AccessControlTargetCondition {
    Scope(FilterRef),
}
pub struct AccessControlSearchResolved<'a> {
    pub acp: &'a AccessControlSearch,
    pub receiver_condition: AccessControlReceiverCondition,
    pub target_condition: AccessControlTargetCondition,
}
pub struct SearchEvent {
    pub ident: Identity,
    pub attrs: Option<BTreeSet<Attribute>>,
}
/// the `self` of search_filter_entry_attributes, as far as the sliced statement uses it
pub struct AcTxn;
pub struct DoCheck {
    pub modify_related_acp: u8,
    pub delete_related_acp: u8,
    pub sync_agmts: u8,
}
impl AcTxn {
    pub fn entry_effective_permission_check(&self, _i: &Identity, _e: &Arc<EntrySealedCommitted>, _s: &[AccessControlSearchResolved], _m: &u8, _d: &u8, _a: u8) -> AccessEffectivePermission {
        AccessEffectivePermission
    }
}

// migration tables: stubs (the Migration identity is outside the claim)
pub static MIGRATION_ENTRY_CLASSES: LazyLock<BTreeSet<String>> = LazyLock::new(|| BTreeSet::default());
pub static MIGRATION_IGNORE_CLASSES: LazyLock<BTreeSet<String>> = LazyLock::new(|| BTreeSet::default());

pub mod access {
    use super::*;
    include!("slice_types.rs");
    include!("slice_fns.rs");
}
pub use access::*;

#[cfg(kani)]
mod harness;
