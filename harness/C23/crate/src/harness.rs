use super::*;

macro_rules! check {
    ($c:expr, $m:literal) => {
        kani::assert($c, $m)
    };
}

fn abit(a: Attribute) -> u64 {
    1u64 << (a as u8)
}
fn cbit(c: EntryClass) -> u64 {
    1u64 << (c as u8)
}
fn any_attr() -> Attribute {
    let i: u8 = kani::any();
    kani::assume(i < N_ATTRS);
    ALL_ATTRS[i as usize]
}
fn any_attr_bits() -> u64 {
    let b: u64 = kani::any();
    b & ((1u64 << N_ATTRS) - 1)
}
fn any_class_bits() -> u64 {
    let b: u64 = kani::any();
    b & ((1u64 << N_CLASSES) - 1)
}
fn any_uuid() -> Uuid {
    Uuid(kani::any::<u8>() % 4)
}
fn any_uuid_set() -> Option<BTreeSet<Uuid>> {
    if kani::any() {
        Some(BTreeSet::model_from_bits(kani::any::<u8>() as u64 & 0xf))
    } else {
        None
    }
}
fn any_class_set() -> (Option<BTreeSet<String>>, u64) {
    if kani::any() {
        let b = any_class_bits();
        (Some(BTreeSet::model_from_bits(b)), b)
    } else {
        (None, 0)
    }
}

/// a search profile releasing <= 2 attributes
fn any_acp() -> (AccessControlSearch, u64) {
    let n: u8 = kani::any();
    kani::assume(n <= 2);
    let (a0, a1) = (abit(any_attr()), abit(any_attr()));
    let bits = match n {
        0 => 0,
        1 => a0,
        _ => a0 | a1,
    };
    (AccessControlSearch { acp: AccessControlProfileInner { name: AcpName }, attrs: BTreeSet::model_from_bits(bits) }, bits)
}

struct World {
    ident: Identity,
    ik: u8,
    user_classes: u64,
    user_sync_parent: Option<Uuid>,
    entry: Arc<EntrySealedCommitted>,
    class_bits: u64,
    present: u64,
    a0: (AccessControlSearch, u64),
    a1: (AccessControlSearch, u64),
    r0: bool,
    r1: bool,
}

fn any_world(kind: u8) -> World {
    let scope = {
        let s: u8 = kani::any();
        kani::assume(s < 3);
        match s {
            0 => AccessScope::ReadOnly,
            1 => AccessScope::ReadWrite,
            _ => AccessScope::Synchronise,
        }
    };
    let (ucls, ucls_bits) = any_class_set();
    let user_sync_parent = if kani::any() { Some(any_uuid()) } else { None };
    let origin = match kind {
        0 => IdentType::User(IdentUser { entry: UserEntry { uuid: any_uuid(), classes: ucls, sync_parent: user_sync_parent }, memberof: any_uuid_set() }),
        1 => IdentType::Synch(any_uuid()),
        2 => IdentType::Internal(InternalRole::System),
        3 => IdentType::Internal(InternalRole::AccountRequest),
        _ => IdentType::Internal(InternalRole::MessageQueue),
    };
    let (cls, class_bits) = any_class_set();
    let present = any_attr_bits();
    let entry = Arc::new(EntrySealedCommitted {
        uuid: any_uuid(),
        classes: cls,
        managed_by: any_uuid_set(),
        scope_maps: if kani::any() { Some(ScopeMaps { groups: BTreeSet::model_from_bits(kani::any::<u8>() as u64 & 0xf) }) } else { None },
        linked_group: if kani::any() { Some(any_uuid()) } else { None },
        present: BTreeSet::model_from_bits(present),
        target_match: [kani::any(), kani::any()],
    });
    World { ident: Identity { origin, scope }, ik: kind, user_classes: ucls_bits, user_sync_parent, entry, class_bits, present, a0: any_acp(), a1: any_acp(), r0: kani::any(), r1: kani::any() }
}

fn rc(b: bool) -> AccessControlReceiverCondition {
    if b {
        AccessControlReceiverCondition::GroupChecked
    } else {
        AccessControlReceiverCondition::EntryManager
    }
}

/// The reference: everything a read grant covers for this user and this entry -- the union of
/// the profiles whose receiver condition and target both match, plus the three built-in
/// visibility rules (OAuth2 client, application, own sync provider).
fn reference_allowed(w: &World, n_acp: usize) -> u64 {
    let entry = &w.entry;
    let (uuid, memberof) = match &w.ident.origin {
        IdentType::User(u) => (u.entry.uuid, u.memberof),
        _ => return 0,
    };
    let mo_bits = memberof.map(|m| m.bits).unwrap_or(0);
    let matches = |i: usize, grp_checked: bool| -> bool {
        if i >= n_acp || !entry.target_match[i] {
            return false;
        }
        if grp_checked {
            return true;
        }
        match &entry.managed_by {
            Some(mb) => mb.bits & (1u64 << uuid.0) != 0 || mo_bits & mb.bits != 0,
            None => false,
        }
    };
    let mut g = 0u64;
    if matches(0, w.r0) {
        g |= w.a0.1;
    }
    if matches(1, w.r1) {
        g |= w.a1.1;
    }
    let has = |c: EntryClass| entry.classes.is_some() && w.class_bits & cbit(c) != 0;
    let anon = uuid == UUID_ANONYMOUS;
    // OAuth2 client visibility for members of a group holding one of its scopes
    if !anon && has(EntryClass::OAuth2ResourceServer) && memberof.is_some() && entry.scope_maps.map(|s| s.groups.bits & mo_bits != 0).unwrap_or(false) {
        g |= abit(Attribute::Class) | abit(Attribute::DisplayName) | abit(Attribute::Uuid) | abit(Attribute::Name) | abit(Attribute::OAuth2RsOriginLanding) | abit(Attribute::Image);
    }
    // application visibility for members of its linked group
    if !anon && has(EntryClass::Application) && entry.linked_group.map(|g| mo_bits & (1u64 << g.0) != 0).unwrap_or(false) {
        g |= abit(Attribute::Class) | abit(Attribute::DisplayName) | abit(Attribute::Uuid) | abit(Attribute::Name) | abit(Attribute::LinkedGroup);
    }
    // a synchronised account sees the credential portal of its own sync provider
    let user_is_sync_account = w.user_classes & cbit(EntryClass::SyncObject) != 0 && w.user_classes & cbit(EntryClass::Account) != 0;
    if user_is_sync_account && has(EntryClass::SyncAccount) && w.user_sync_parent == Some(entry.uuid) {
        g |= abit(Attribute::Class) | abit(Attribute::Uuid) | abit(Attribute::SyncCredentialPortal);
    }
    g
}

struct Witness {
    allowed_by_profile: bool,
    allowed_by_builtin_rule: bool,
    allowed_nothing: bool,
    deny: bool,
    grant: bool,
}

fn disclosed(kind: u8, n_acp: usize) -> Witness {
    let w = any_world(kind);
    let related_all = [
        AccessControlSearchResolved { acp: &w.a0.0, receiver_condition: rc(w.r0), target_condition: AccessControlTargetCondition::Scope(FilterRef(0)) },
        AccessControlSearchResolved { acp: &w.a1.0, receiver_condition: rc(w.r1), target_condition: AccessControlTargetCondition::Scope(FilterRef(1)) },
    ];
    let res = apply_search_access(&w.ident, &related_all[..n_acp], &w.entry);
    let g = reference_allowed(&w, n_acp);
    let is_user = kind == 0;
    let mut wit = Witness { allowed_by_profile: false, allowed_by_builtin_rule: false, allowed_nothing: false, deny: false, grant: false };
    match &res {
        SearchResult::Grant => {
            wit.grant = true;
            let acct = w.entry.classes.is_some() && w.class_bits & cbit(EntryClass::Account) != 0;
            check!(kind == 2 || (kind == 3 && acct), "C23: an unconditional read is only ever given to the internal system identity (and to account-request on accounts)");
        }
        SearchResult::Deny => {
            wit.deny = true;
        }
        SearchResult::Allow(attrs) => {
            check!(is_user, "C23: only users are evaluated against search profiles");
            check!(w.ident.scope != AccessScope::Synchronise, "C23: synchronise-scoped identities can never search");
            check!(attrs.bits & !g == 0, "C23: an attribute is readable only if a read grant (a profile whose receiver and target both match, or a built-in visibility rule) covers it for this identity and this entry");
            let by_profiles = (if n_acp > 0 { w.a0.1 } else { 0 }) | (if n_acp > 1 { w.a1.1 } else { 0 });
            wit.allowed_by_profile = attrs.bits & by_profiles != 0;
            wit.allowed_by_builtin_rule = attrs.bits & !by_profiles != 0;
            wit.allowed_nothing = attrs.bits == 0;
        }
    }
    if kind == 1 || kind == 4 {
        check!(matches!(res, SearchResult::Deny), "C23: synchronisation and message-queue identities cannot search at all");
    }
    if is_user && w.ident.scope == AccessScope::Synchronise {
        check!(matches!(res, SearchResult::Deny), "C23: synchronise-scoped identities can never search");
    }
    core::mem::forget(w);
    wit
}

#[kani::proof]
#[kani::unwind(8)]
fn c23_user_no_profile() {
    let w = disclosed(0, 0);
    kani::cover!(w.allowed_by_builtin_rule, "built-in visibility rule applies");
    kani::cover!(w.allowed_nothing, "nothing readable");
}
#[kani::proof]
#[kani::unwind(8)]
fn c23_user_one_profile() {
    let w = disclosed(0, 1);
    kani::cover!(w.allowed_by_profile, "readable by a profile");
    kani::cover!(w.allowed_by_builtin_rule, "built-in visibility rule applies");
    kani::cover!(w.allowed_nothing, "nothing readable");
    kani::cover!(w.deny, "denied");
}
#[kani::proof]
#[kani::unwind(8)]
fn c23_user_two_profiles() {
    let w = disclosed(0, 2);
    kani::cover!(w.allowed_by_profile, "readable by a profile");
    kani::cover!(w.allowed_by_builtin_rule, "built-in visibility rule applies");
    kani::cover!(w.allowed_nothing, "nothing readable");
    kani::cover!(w.deny, "denied");
}
#[kani::proof]
#[kani::unwind(8)]
fn c23_sync_identity() {
    let w = disclosed(1, 2);
    kani::cover!(w.deny, "denied");
}
#[kani::proof]
#[kani::unwind(8)]
fn c23_internal_system() {
    let w = disclosed(2, 2);
    kani::cover!(w.grant, "granted");
}
#[kani::proof]
#[kani::unwind(8)]
fn c23_internal_account_request() {
    let w = disclosed(3, 2);
    kani::cover!(w.grant, "granted on an account");
    kani::cover!(w.deny, "denied on anything else");
}
#[kani::proof]
#[kani::unwind(8)]
fn c23_internal_message_queue() {
    let w = disclosed(4, 2);
    kani::cover!(w.deny, "denied");
}

/// filter_entries: an entry is released to a user only if every attribute the search filter
/// tests is readable on that entry (no disclosure through a filter term).
#[kani::proof]
#[kani::unwind(8)]
fn c23_entry_release_one_profile() {
    let w = any_world(0);
    let requested = any_attr_bits();
    kani::assume(requested != 0);
    let related = {
        let mut v = std::vec::Vec::with_capacity(1);
        v.push(AccessControlSearchResolved { acp: &w.a0.0, receiver_condition: rc(w.r0), target_condition: AccessControlTargetCondition::Scope(FilterRef(0)) });
        v
    };
    let entries = {
        let mut v = std::vec::Vec::with_capacity(1);
        v.push(w.entry.clone());
        v
    };
    let out = filter_entries_release(&w.ident, related, BTreeSet::model_from_bits(requested), entries);
    let g = reference_allowed(&w, 1);
    check!(out.len() <= 1, "C23: release never invents entries");
    if out.len() == 1 {
        check!(requested & !g == 0, "C23: an entry is revealed only if every attribute the filter tests is covered by a read grant for this identity and entry");
    }
    kani::cover!(out.len() == 1, "entry released");
    kani::cover!(out.len() == 0 && requested & g != 0, "entry withheld because one tested attribute is not readable");
    core::mem::forget(out);
    core::mem::forget(w);
}

/// search_filter_entry_attributes: the reduced entry carries only attributes covered by a read
/// grant (and requested, when a list was requested).
#[kani::proof]
#[kani::unwind(8)]
fn c23_attribute_reduction_one_profile() {
    let w = any_world(0);
    let req: Option<u64> = if kani::any() { Some(any_attr_bits()) } else { None };
    let related = {
        let mut v = std::vec::Vec::with_capacity(1);
        v.push(AccessControlSearchResolved { acp: &w.a0.0, receiver_condition: rc(w.r0), target_condition: AccessControlTargetCondition::Scope(FilterRef(0)) });
        v
    };
    let entries = {
        let mut v = std::vec::Vec::with_capacity(1);
        v.push(w.entry.clone());
        v
    };
    let g = reference_allowed(&w, 1);
    let se = SearchEvent { ident: Identity { origin: w.ident.origin, scope: w.ident.scope }, attrs: req.map(BTreeSet::model_from_bits) };
    let out = AcTxn.reduce_release(&se, related, entries);
    check!(out.len() <= 1, "C23: reduction never invents entries");
    if out.len() == 1 {
        let got = out[0].attrs.bits;
        check!(got & !g == 0, "C23: a returned entry carries only attributes covered by a read grant for this identity and entry");
        check!(got & !w.present == 0, "C23: a returned entry carries only attributes the stored entry has");
        if let Some(r) = req {
            check!(got & !r == 0, "C23: a returned entry carries only requested attributes");
        }
    }
    kani::cover!(out.len() == 1 && out[0].attrs.bits != 0, "entry returned with some attributes");
    kani::cover!(out.len() == 0, "entry dropped");
    core::mem::forget(out);
    core::mem::forget(w);
}

/// Reachability twin: must FAIL.
#[kani::proof]
#[kani::unwind(8)]
fn c23_twin_must_fail() {
    let w = disclosed(0, 1);
    kani::assert(false, "twin: reachable");
}
