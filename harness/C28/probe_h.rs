use super::{CredSoftLock, CredSoftLockPolicy, LockState};
use std::time::Duration;
fn is_winend(e: u64, t: u64, w: u64) -> bool { e % w == 0 && e > t && e - t <= w }
fn table(policy: CredSoftLockPolicy, w: u64, tmax: u64) {
    let count: usize = kani::any();
    kani::assume(count >= 1 && count < 1000);
    let s: u64 = kani::any();
    kani::assume(s < tmax);
    let ct = Duration::from_secs(s);
    let st = policy.failure_next_state(count, ct);
    match st {
        LockState::Locked { count: c, reset_at, unlock_at } => {
            kani::assert(c == count, "count");
            kani::assert(reset_at.subsec_nanos() == 0 && is_winend(reset_at.as_secs(), s, w), "winend");
        }
        _ => kani::assert(false, "locks"),
    }
}
#[kani::proof] fn probe_a_pw() { table(CredSoftLockPolicy::Password, 86400, 1<<40); }
#[kani::proof] fn probe_a_pw32() { table(CredSoftLockPolicy::Password, 86400, 1<<32); }
#[kani::proof] fn probe_b_totp_sym16() { let w: u64 = kani::any(); kani::assume(w>=1 && w<=65536); table(CredSoftLockPolicy::Totp(w), w, 1<<40); }
#[kani::proof] fn probe_c_totp30() { table(CredSoftLockPolicy::Totp(30), 30, 1<<40); }
#[kani::proof] fn probe_d_totp_sym8() { let w: u64 = kani::any(); kani::assume(w>=1 && w<=255); table(CredSoftLockPolicy::Totp(w), w, 1<<24); }
#[kani::proof] fn probe_e_totp_sym8_32() { let w: u64 = kani::any(); kani::assume(w>=1 && w<=255); table(CredSoftLockPolicy::Totp(w), w, 1<<32); }
