// Kani harnesses for C28, injected as a child module of server/lib/src/credential/softlock.rs.
// They drive the real CredSoftLock / CredSoftLockPolicy / LockState (private items reached
// through `super::`).
use super::{CredSoftLock, CredSoftLockPolicy, LockState};
use std::time::Duration;

macro_rules! check {
    ($c:expr, $m:literal) => {
        kani::assert($c, $m)
    };
}

const TMAX: u64 = 1 << 40; // seconds; ~34,000 years
const CMAX: usize = 1 << 20;

fn any_time() -> Duration {
    any_time_lt(TMAX)
}

fn any_time_lt(tmax: u64) -> Duration {
    let s: u64 = kani::any();
    let n: u32 = kani::any();
    kani::assume(s < tmax);
    kani::assume(n < 1_000_000_000);
    Duration::new(s, n)
}

// A symbolic TOTP step makes `x % step` a 64-bit division by a symbolic divisor, which CBMC's
// bit-blasting does not finish (probed: 8-bit step, 24-bit time, > 150 s).  The step is therefore
// chosen from a fixed set of concrete values; the divisor of the password policy is the constant
// 86400.  Stated in the evidence as a bound.
const STEPS: [u64; 4] = [30, 60, 1, 37];

fn any_step() -> u64 {
    let i: usize = kani::any();
    kani::assume(i < STEPS.len());
    STEPS[i]
}

/// Password, Totp(step in STEPS), Webauthn   (Unrestricted never locks, by design)
fn any_limited_policy() -> CredSoftLockPolicy {
    let k: u8 = kani::any();
    kani::assume(k < 3);
    match k {
        0 => CredSoftLockPolicy::Password,
        1 => CredSoftLockPolicy::Totp(any_step()),
        _ => CredSoftLockPolicy::Webauthn,
    }
}

fn any_pw_or_totp() -> CredSoftLockPolicy {
    if kani::any() {
        CredSoftLockPolicy::Password
    } else {
        CredSoftLockPolicy::Totp(any_step())
    }
}

fn any_state() -> LockState {
    let k: u8 = kani::any();
    kani::assume(k < 3);
    let count: usize = kani::any();
    kani::assume(count >= 1 && count < CMAX);
    match k {
        0 => LockState::Init,
        1 => LockState::Locked { count, reset_at: any_time(), unlock_at: any_time() },
        _ => LockState::Unlocked(count, any_time()),
    }
}

fn window(p: &CredSoftLockPolicy) -> u64 {
    match p {
        CredSoftLockPolicy::Password => 86400,
        CredSoftLockPolicy::Totp(s) => *s,
        _ => 1,
    }
}
fn limit(p: &CredSoftLockPolicy) -> usize {
    match p {
        CredSoftLockPolicy::Password => 100,
        _ => 3,
    }
}
/// `e` is the end of the window containing t: the smallest multiple of w strictly greater than
/// t.secs.  Stated relationally (one `%`), so the solver never multiplies symbolic values.
fn is_winend(e: u64, t: Duration, w: u64) -> bool {
    // dispatch so that every `%` the solver sees has a constant divisor
    let m = match w {
        86400 => e % 86400,
        30 => e % 30,
        60 => e % 60,
        37 => e % 37,
        1 => 0,
        _ => e % w,
    };
    m == 0 && e > t.as_secs() && e - t.as_secs() <= w
}
fn is_mult(e: u64, w: u64) -> bool {
    (match w {
        86400 => e % 86400,
        30 => e % 30,
        60 => e % 60,
        37 => e % 37,
        1 => 0,
        _ => e % w,
    }) == 0
}
fn count_of(s: &LockState) -> usize {
    match s {
        LockState::Init => 0,
        LockState::Locked { count, .. } => *count,
        LockState::Unlocked(c, _) => *c,
    }
}

/// (a1) A failure locks immediately and the lock holds while ct' <= unlock_at and the window has
/// not ended (ct' <= reset_at).
#[kani::proof]
fn c28_failure_locks_within_window() {
    let policy = any_limited_policy();
    let mut sl = CredSoftLock { state: any_state(), policy, last_expire_at: Duration::from_secs(0) };
    let ct = any_time();
    sl.record_failure(ct);
    check!(!sl.is_valid(), "C28: credential refused right after a failure");
    let (unlock_at, reset_at) = match sl.state {
        LockState::Locked { unlock_at, reset_at, .. } => (unlock_at, reset_at),
        _ => unreachable!(),
    };
    check!(unlock_at > ct, "C28: unlock time is strictly after the failure");
    let ct2 = any_time();
    kani::assume(ct2 >= ct && ct2 <= unlock_at && ct2 <= reset_at);
    sl.apply_time_step(ct2, None);
    check!(!sl.is_valid(), "C28: refused until unlock time (inside the window)");
    kani::cover!(ct2 == unlock_at, "checked exactly at unlock time");
    kani::cover!(matches!(sl.policy, CredSoftLockPolicy::Totp(_)), "totp");
    kani::cover!(matches!(sl.policy, CredSoftLockPolicy::Password) && ct2 > ct, "password later");
}

/// (a2) ... and the lock is not cut short by the end of the counting window: times in
/// (reset_at, unlock_at], which exist when the delay crosses the window boundary.
#[kani::proof]
fn c28_refused_until_unlock_time() {
    let policy = any_pw_or_totp();
    let mut sl = CredSoftLock { state: any_state(), policy, last_expire_at: Duration::from_secs(0) };
    let ct = any_time();
    sl.record_failure(ct);
    let (unlock_at, reset_at) = match sl.state {
        LockState::Locked { unlock_at, reset_at, .. } => (unlock_at, reset_at),
        _ => unreachable!(),
    };
    let ct2 = any_time();
    // the part of [ct, unlock_at] that c28_failure_locks_within_window does not cover
    kani::assume(ct2 >= ct && ct2 <= unlock_at && ct2 > reset_at);
    kani::cover!(ct2 == unlock_at, "checked exactly at unlock time, beyond the window end");
    sl.apply_time_step(ct2, None);
    check!(!sl.is_valid(), "C28: refused until unlock time");
}

/// (b) A further failure never shortens the lock: for failures at ct1 <= ct2 (the second one
/// recorded directly, or after the time step the server applies first), unlock2 >= unlock1.
fn never_shortens(policy: CredSoftLockPolicy, tmax: u64) {
    let mut sl = CredSoftLock { state: any_state(), policy, last_expire_at: Duration::from_secs(0) };
    let ct1 = any_time_lt(tmax);
    sl.record_failure(ct1);
    let (unlock1, reset1) = match sl.state {
        LockState::Locked { unlock_at, reset_at, .. } => (unlock_at, reset_at),
        _ => unreachable!(),
    };
    let ct2 = any_time_lt(tmax);
    // a further failure in the same window
    kani::assume(ct2 >= ct1 && ct2 <= reset1);
    // the server applies the time step first and records a failure only while the credential is
    // valid; `direct` additionally records a failure on a still-locked credential ("we should
    // never reach this but just in case") when the first delay did not cross the window end.
    let step_first: bool = kani::any();
    if step_first {
        sl.apply_time_step(ct2, None);
        kani::assume(sl.is_valid());
    } else {
        kani::assume(unlock1 <= reset1);
    }
    sl.record_failure(ct2);
    let unlock2 = match sl.state {
        LockState::Locked { unlock_at, .. } => unlock_at,
        _ => unreachable!(),
    };
    check!(unlock2 >= unlock1, "C28: a further failure never shortens the lock");
    check!(!sl.is_valid(), "C28: refused after the further failure");
    kani::cover!(step_first && ct2 > unlock1, "second failure after unlock");
    kani::cover!(!step_first && ct2 < unlock1, "second failure while locked");
}

#[kani::proof]
fn c28_never_shortens_password() {
    never_shortens(CredSoftLockPolicy::Password, 1 << 32);
}

#[kani::proof]
fn c28_never_shortens_password_t40() {
    never_shortens(CredSoftLockPolicy::Password, TMAX);
}

#[kani::proof]
fn c28_never_shortens_totp() {
    never_shortens(CredSoftLockPolicy::Totp(any_step()), 1 << 32);
}

#[kani::proof]
fn c28_never_shortens_totp_t40() {
    never_shortens(CredSoftLockPolicy::Totp(any_step()), TMAX);
}

/// (c) The failure count returns to zero only when the time step is past the window's reset
/// time, or past a *new* administrator expiry; otherwise a time step preserves the count.
#[kani::proof]
fn c28_count_resets_only_by_time_or_expiry() {
    let policy = any_limited_policy();
    let st = any_state();
    kani::assume(!matches!(st, LockState::Init));
    let last = any_time();
    let mut sl = CredSoftLock { state: st.clone(), policy, last_expire_at: last };
    let ct = any_time();
    let has_exp: bool = kani::any();
    let exp = any_time();
    let expire_at = if has_exp { Some(exp) } else { None };
    let (c0, r0) = match st {
        LockState::Locked { count, reset_at, .. } => (count, reset_at),
        LockState::Unlocked(c, r) => (c, r),
        LockState::Init => unreachable!(),
    };
    let was_locked = matches!(st, LockState::Locked { .. });
    sl.apply_time_step(ct, expire_at);
    let _ = sl.is_valid();
    if matches!(sl.state, LockState::Init) {
        check!(
            ct > r0 || (was_locked && has_exp && exp != last && ct > exp),
            "C28: count resets only after reset time or a new admin expiry"
        );
    } else {
        check!(count_of(&sl.state) == c0, "C28: a time step never changes the failure count");
    }
    kani::cover!(matches!(sl.state, LockState::Init) && ct <= r0, "reset by admin expiry");
    kani::cover!(matches!(sl.state, LockState::Init) && ct > r0, "reset by window end");
    kani::cover!(matches!(sl.state, LockState::Unlocked(..)) && was_locked, "unlocked, count kept");
}

/// (c2) An administrator expiry clears a lock at most once: after the value E has been applied to
/// a locked credential (last_expire_at == E), presenting the same E again -- on every later
/// login, as the server does while the attribute stays on the account -- never clears a NEW
/// lock, whatever happened in between.
#[kani::proof]
fn c28_admin_expiry_applies_once() {
    let policy = any_pw_or_totp();
    let e = any_time_lt(1 << 32);
    let st = any_state();
    let (was_locked, was_init) = (matches!(st, LockState::Locked { .. }), matches!(st, LockState::Init));
    let mut sl = CredSoftLock { state: st, policy, last_expire_at: e };
    let ct1 = any_time_lt(1 << 32);
    sl.apply_time_step(ct1, Some(e));
    let ct2 = any_time_lt(1 << 32);
    kani::assume(ct2 >= ct1);
    sl.apply_time_step(ct2, Some(e));
    let ct3 = any_time_lt(1 << 32);
    kani::assume(ct3 >= ct2);
    kani::assume(sl.is_valid());
    sl.record_failure(ct3);
    let (unlock_at, reset_at) = match sl.state {
        LockState::Locked { unlock_at, reset_at, .. } => (unlock_at, reset_at),
        _ => unreachable!(),
    };
    let ct4 = any_time_lt(1 << 32);
    kani::assume(ct4 >= ct3 && ct4 <= unlock_at && ct4 <= reset_at);
    sl.apply_time_step(ct4, Some(e));
    check!(!sl.is_valid(), "C28: an administrator expiry that was already applied never clears a later lock");
    kani::cover!(e < ct3 && was_locked, "stale expiry in the past, lock re-established");
    kani::cover!(was_init, "started from Init");
}

/// (d) Policy tables: reset_at is the end of the window containing ct; delays are 1/3/5/10 s and
/// the lock holds until the window ends once the budget is used up.
#[kani::proof]
fn c28_policy_table() {
    let policy = any_pw_or_totp();
    let count: usize = kani::any();
    kani::assume(count >= 1 && count < CMAX);
    let ct = any_time();
    let w = window(&policy);
    let st = policy.failure_next_state(count, ct);
    match st {
        LockState::Locked { count: c, reset_at, unlock_at } => {
            check!(c == count, "C28: count recorded");
            check!(reset_at.subsec_nanos() == 0 && is_winend(reset_at.as_secs(), ct, w), "C28: reset_at is the end of the UTC day / TOTP step containing the failure");
            if count >= limit(&policy) {
                check!(unlock_at == reset_at, "C28: budget exhausted => locked until the window ends");
            } else {
                let d = unlock_at - ct;
                check!(d >= Duration::from_secs(1) && d <= Duration::from_secs(10), "C28: delay between 1 and 10 s");
                if let CredSoftLockPolicy::Password = policy {
                    let want = if count < 3 { 1 } else if count < 9 { 3 } else if count < 25 { 5 } else { 10 };
                    check!(d == Duration::from_secs(want), "C28: password delay table 1/3/5/10 s");
                }
            }
        }
        _ => check!(false, "C28: a limited policy always locks on failure"),
    }
    kani::cover!(count == 100 && w == 86400, "100th password failure");
    kani::cover!(count == 3 && w != 86400, "3rd totp failure");
    kani::cover!(ct.as_secs() % w == w - 1 && w > 1, "failure in the last second of a window");
}

/// (e) Budget, by induction over events.  Ghost state: t_prev (time of the previous event, clock
/// monotone) and n = number of failures recorded so far inside the window (UTC day / TOTP step)
/// that contains t_prev.  Protocol assumed from the server paths (idm/server.rs): every event
/// first applies the time step with the current time, and a failure is only recorded while
/// is_valid().  Invariant:
///   Init            => n == 0
///   count c, reset R=> n <= c <= L, t_prev <= R, R % W == 0, (n > 0 => R == winend(t_prev)),
///                      Unlocked => c < L,  Locked with c == L => unlock_at == R
/// One event from ANY invariant-satisfying state re-establishes it; hence n <= L forever:
/// at most 100 failures per UTC day (password) and 3 per step (TOTP).
fn budget_inv(sl: &CredSoftLock, w: u64, l: usize, t_prev: Duration, e_prev: u64, n: usize) -> bool {
    match &sl.state {
        LockState::Init => n == 0,
        LockState::Locked { count, reset_at, unlock_at } => {
            n <= *count && *count <= l && *count >= 1
                && t_prev <= *reset_at
                && reset_at.subsec_nanos() == 0 && is_mult(reset_at.as_secs(), w)
                && (n == 0 || reset_at.as_secs() == e_prev)
                && (*count < l || unlock_at == reset_at)
        }
        LockState::Unlocked(count, reset_at) => {
            n <= *count && *count < l && *count >= 1
                && t_prev <= *reset_at
                && reset_at.subsec_nanos() == 0 && is_mult(reset_at.as_secs(), w)
                && (n == 0 || reset_at.as_secs() == e_prev)
        }
    }
}

fn budget_step(policy: CredSoftLockPolicy, tmax: u64) {
    let w = window(&policy);
    let l = limit(&policy);
    let mut sl = CredSoftLock { state: any_state(), policy, last_expire_at: Duration::from_secs(0) };
    let t_prev = any_time_lt(tmax);
    let n: usize = kani::any();
    kani::assume(n <= l);
    // ghost: e_prev = end of the window containing t_prev, e_ct likewise for ct
    let e_prev: u64 = kani::any();
    kani::assume(is_winend(e_prev, t_prev, w));
    kani::assume(budget_inv(&sl, w, l, t_prev, e_prev, n));
    // ---- one event at time ct >= t_prev
    let ct = any_time_lt(tmax);
    kani::assume(ct >= t_prev);
    let e_ct: u64 = kani::any();
    kani::assume(is_winend(e_ct, ct, w));
    let mut n2 = if e_ct == e_prev { n } else { 0 };
    sl.apply_time_step(ct, None);
    let attempt: bool = kani::any();
    let mut failed = false;
    if attempt && sl.is_valid() {
        // a credential check is attempted and fails
        sl.record_failure(ct);
        n2 += 1;
        failed = true;
    }
    check!(n2 <= l, "C28: failures inside one window never exceed the budget (100/day, 3/step)");
    check!(budget_inv(&sl, w, l, ct, e_ct, n2), "C28: budget invariant is inductive");
    kani::cover!(failed && n2 == l, "the last failure the budget allows");
    kani::cover!(attempt && !failed, "attempt refused by the lock");
    kani::cover!(failed && n2 == 1 && n > 0, "first failure of a new window");
}

#[kani::proof]
fn c28_budget_password_t24_inductive() {
    budget_step(CredSoftLockPolicy::Password, 1 << 24);
}

#[kani::proof]
fn c28_budget_password_t28_inductive() {
    budget_step(CredSoftLockPolicy::Password, 1 << 28);
}

#[kani::proof]
fn c28_budget_totp30_inductive() {
    budget_step(CredSoftLockPolicy::Totp(30), TMAX);
}

#[kani::proof]
fn c28_budget_totp60_inductive() {
    budget_step(CredSoftLockPolicy::Totp(60), TMAX);
}

#[kani::proof]
fn c28_budget_totp37_inductive() {
    budget_step(CredSoftLockPolicy::Totp(37), TMAX);
}

#[kani::proof]
fn c28_budget_totp1_inductive() {
    budget_step(CredSoftLockPolicy::Totp(1), TMAX);
}

/// The invariant holds initially.
#[kani::proof]
fn c28_budget_base() {
    let policy = any_pw_or_totp();
    let w = window(&policy);
    let l = limit(&policy);
    let sl = CredSoftLock::new(policy);
    check!(sl.is_valid(), "C28: a fresh lock is valid");
    check!(budget_inv(&sl, w, l, Duration::from_secs(0), w, 0), "C28: budget invariant holds initially");
    kani::cover!(w == 86400, "password");
    kani::cover!(w == 30, "totp 30 s");
}

/// Direct witness: a 4-event trajectory from new() (password / TOTP), each event = time step +
/// optional failing attempt; failures inside one TOTP step never exceed 3.
#[kani::proof]
#[kani::unwind(6)]
fn c28_history_5_totp() {
    let step: u64 = 30;
    let mut sl = CredSoftLock::new(CredSoftLockPolicy::Totp(step));
    let t0 = any_time();
    let e0: u64 = kani::any();
    kani::assume(is_winend(e0, t0, step));
    let mut t = t0;
    let mut fails = 0u8;
    let mut i = 0;
    while i < 5 {
        let ct = any_time();
        kani::assume(ct >= t && ct.as_secs() < e0);
        t = ct;
        sl.apply_time_step(ct, None);
        if sl.is_valid() {
            sl.record_failure(ct);
            fails += 1;
        }
        i += 1;
    }
    check!(fails <= 3, "C28: at most 3 TOTP failures inside one step");
    kani::cover!(fails == 3, "three failures reached");
}

/// Reachability twin: must FAIL.
#[kani::proof]
fn c28_twin_must_fail() {
    let policy = any_limited_policy();
    let mut sl = CredSoftLock { state: any_state(), policy, last_expire_at: Duration::from_secs(0) };
    let ct = any_time();
    sl.record_failure(ct);
    check!(!sl.is_valid(), "C28: credential refused right after a failure");
    kani::assert(false, "twin: reachable");
}
