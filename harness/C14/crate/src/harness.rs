use super::*;

macro_rules! check {
    ($c:expr, $m:literal) => {
        kani::assert($c, $m)
    };
}

fn any_msg() -> Msg {
    let n: usize = kani::any();
    kani::assume(n >= 1 && n <= 3);
    let b: [u8; 3] = kani::any();
    kani::assume(b[0] != 0xff);
    let mut bb = [0u8; 3];
    let mut i = 0;
    while i < 3 {
        if i < n {
            bb[i] = b[i];
        }
        i += 1;
    }
    Msg { n, b: bb }
}

/// Two messages written by the real encoder, delivered to the real decoder in three chunks cut
/// at arbitrary points; decode is called after every chunk until it asks for more bytes.
#[kani::proof]
#[kani::unwind(27)]
fn c14_two_frames_any_fragmentation() {
    two_frames(false);
}

/// Same with a single cut (two reads): the every-change tier.
#[kani::proof]
#[kani::unwind(27)]
fn c14_two_frames_one_cut() {
    two_frames(true);
}

fn two_frames(one_cut: bool) {
    let m1 = any_msg();
    let m2 = any_msg();
    let mut wire = BytesMut::new();
    check!(encode_length_checked_json(m1, &mut wire).is_ok(), "C14: encoding succeeds");
    check!(encode_length_checked_json(m2, &mut wire).is_ok(), "C14: encoding succeeds");
    let total = wire.len();
    check!(total == 16 + m1.n + m2.n, "C14: frame = 8-byte length + payload");
    let c1: usize = kani::any();
    let c2: usize = kani::any();
    kani::assume(c1 <= c2 && c2 <= total);
    if one_cut {
        kani::assume(c2 == total);
    }
    let max_frame: usize = kani::any();
    kani::assume(max_frame >= 3 && max_frame <= 64);
    let mut rx = BytesMut::new();
    let mut got: [Option<Msg>; 3] = [None; 3];
    let mut ngot = 0usize;
    let mut sent = 0usize;
    let mut chunk = 0;
    while chunk < 3 {
        let upto = if chunk == 0 { c1 } else if chunk == 1 { c2 } else { total };
        // deliver bytes [sent, upto)
        let mut i = 0;
        while i < CAP {
            if i >= sent && i < upto {
                rx.extend_from_slice(&[wire[i]]);
            }
            i += 1;
        }
        sent = upto;
        // drain
        let mut k = 0;
        while k < 3 {
            match decode_length_checked_json::<Msg>(max_frame, &mut rx) {
                Ok(Some(m)) => {
                    check!(ngot < 2, "C14: no message is invented");
                    if ngot < 3 {
                        got[ngot] = Some(m);
                    }
                    ngot += 1;
                }
                Ok(None) => {
                    k = 3;
                }
                Err(_) => {
                    check!(false, "C14: a well-formed stream never yields a decode error, however it is fragmented");
                    k = 3;
                }
            }
            k += 1;
        }
        chunk += 1;
    }
    check!(ngot == 2 && got[0] == Some(m1) && got[1] == Some(m2), "C14: the decoded sequence equals the sent sequence, in order");
    check!(rx.len() == 0, "C14: nothing is left over");
    kani::cover!(c1 > 8 + m1.n && c1 < 16 + m1.n, "cut inside the second frame's length header");
    kani::cover!(c1 < 8 && c1 > 0, "cut inside the first header");
    kani::cover!(c1 == 0 && c2 == total, "everything in one read");
    kani::cover!(c1 == 8 + m1.n, "cut at the frame boundary");
}

/// Arbitrary bytes from the peer: header checks.
#[kani::proof]
#[kani::unwind(27)]
fn c14_hostile_header() {
    let hdr: [u8; 8] = kani::any();
    let tail_len: usize = kani::any();
    kani::assume(tail_len <= 12);
    let tail: [u8; 12] = kani::any();
    let max_frame: usize = kani::any();
    kani::assume(max_frame <= 16);
    let mut rx = BytesMut::new();
    rx.extend_from_slice(&hdr);
    rx.extend_from_slice(&tail[..tail_len]);
    let before = rx;
    let req = u64::from_be_bytes(hdr);
    let r = decode_length_checked_json::<Msg>(max_frame, &mut rx);
    if req == 0 {
        check!(matches!(r, Err(io::Error(io::ErrorKind::InvalidInput))), "C14: an empty frame is rejected");
    } else if req > max_frame as u64 {
        check!(matches!(r, Err(io::Error(io::ErrorKind::OutOfMemory))), "C14: a frame larger than the limit is rejected, not buffered");
    } else if (tail_len as u64) < req {
        check!(matches!(r, Ok(None)), "C14: an incomplete frame waits for more bytes");
        check!(rx.len() == before.len() && rx.start == before.start, "C14: waiting does not consume bytes");
    } else {
        // complete frame: consumed exactly 8 + req bytes whatever the payload parses to
        check!(rx.len() == before.len() - 8 - req as usize, "C14: a complete frame consumes exactly header + payload");
        if let Ok(Some(m)) = r {
            check!(m.n == req as usize, "C14: the payload handed to the parser has exactly the announced length");
        }
    }
    kani::cover!(req == 0, "zero length");
    kani::cover!(req > max_frame as u64 && req < 64, "too large");
    kani::cover!(matches!(r, Ok(Some(_))), "decoded");
    kani::cover!(matches!(r, Ok(None)), "needs more");
}

/// Short reads of the header itself.
#[kani::proof]
#[kani::unwind(27)]
fn c14_short_header() {
    let n: usize = kani::any();
    kani::assume(n < 8);
    let b: [u8; 8] = kani::any();
    let mut rx = BytesMut::new();
    rx.extend_from_slice(&b[..n]);
    let r = decode_length_checked_json::<Msg>(kani::any(), &mut rx);
    check!(matches!(r, Ok(None)) && rx.len() == n, "C14: fewer than 8 bytes: wait, consume nothing");
    kani::cover!(n == 7, "seven bytes");
}

/// Reachability twin: must FAIL.
#[kani::proof]
#[kani::unwind(27)]
fn c14_twin_must_fail() {
    let m1 = any_msg();
    let mut wire = BytesMut::new();
    let _ = encode_length_checked_json(m1, &mut wire);
    let r = decode_length_checked_json::<Msg>(16, &mut wire);
    check!(matches!(r, Ok(Some(_))), "reach");
    kani::assert(false, "twin: reachable");
}
