//! K-slice crate for C14.  `slice.rs` is generated on every run from
//! /repo/server/core/src/repl/codec.rs: consts CODEC_*, fn encode_length_checked_json,
//! fn decode_length_checked_json -- text unchanged.
//! Models: bytes::BytesMut as a bounded byte window (CAP bytes) with exactly the operations the
//! codec uses; serde_json::{to_writer, from_slice} as an injective codec on 1..=3 byte payloads
//! (a message IS its payload); std::io::Error as a kind; empty logging macros.
#![allow(dead_code, unused_imports, unused_variables, unused_macros, unused_mut)]

macro_rules! trace { ($($t:tt)*) => { () }; }
macro_rules! error { ($($t:tt)*) => { () }; }

pub const CAP: usize = 24;

pub mod io {
    #[derive(Clone, Copy, Debug, PartialEq, Eq)]
    pub enum ErrorKind {
        InvalidInput,
        OutOfMemory,
        Other,
    }
    #[derive(Clone, Copy, Debug, PartialEq, Eq)]
    pub struct Error(pub ErrorKind);
    impl Error {
        pub fn new(k: ErrorKind, _m: &'static str) -> Error {
            Error(k)
        }
        pub fn other(_m: &'static str) -> Error {
            Error(ErrorKind::Other)
        }
    }
}

/// bytes::BytesMut: a growable byte buffer of which the codec uses: is_empty, len, capacity,
/// clear, with_capacity, split_off, extend_from_slice, unsplit, advance, writer, and slice
/// access through Deref/DerefMut.  Model: window [start, start+len) of a fixed array.
#[derive(Clone, Copy)]
pub struct BytesMut {
    pub buf: [u8; CAP],
    pub start: usize,
    pub len: usize,
    /// reported capacity (the codec only compares it with the 8 MB shrink limit)
    pub cap: usize,
}
impl BytesMut {
    pub fn new() -> Self {
        BytesMut { buf: [0; CAP], start: 0, len: 0, cap: CAP }
    }
    pub fn with_capacity(c: usize) -> Self {
        BytesMut { buf: [0; CAP], start: 0, len: 0, cap: c }
    }
    pub fn is_empty(&self) -> bool {
        self.len == 0
    }
    pub fn len(&self) -> usize {
        self.len
    }
    pub fn capacity(&self) -> usize {
        self.cap
    }
    pub fn clear(&mut self) {
        self.len = 0;
    }
    fn at(&self, i: usize) -> u8 {
        self.buf[(self.start + i) % CAP]
    }
    fn push(&mut self, b: u8) {
        #[cfg(kani)]
        kani::assert(self.start + self.len < CAP, "bytes model: capacity exceeded (raise CAP)");
        if self.start + self.len < CAP {
            self.buf[self.start + self.len] = b;
            self.len += 1;
        }
    }
    /// Splits the bytes into two at the given index: self keeps [0, at), the returned value
    /// holds [at, len).  Panics if at > len (as the real one does).
    pub fn split_off(&mut self, at: usize) -> BytesMut {
        assert!(at <= self.len, "split_off out of bounds");
        let mut o = BytesMut::new();
        o.cap = self.cap;
        let mut i = 0;
        while i < CAP {
            if i >= at && i < self.len {
                o.push(self.at(i));
            }
            i += 1;
        }
        self.len = at;
        o
    }
    pub fn extend_from_slice(&mut self, s: &[u8]) {
        let mut i = 0;
        while i < CAP {
            if i < s.len() {
                self.push(s[i]);
            }
            i += 1;
        }
    }
    /// Absorbs a BytesMut that was previously split off: appends its bytes.
    pub fn unsplit(&mut self, o: BytesMut) {
        let mut i = 0;
        while i < CAP {
            if i < o.len {
                self.push(o.at(i));
            }
            i += 1;
        }
    }
    /// Advance the internal cursor: drops the first `n` bytes.  Panics if n > len.
    pub fn advance(&mut self, n: usize) {
        assert!(n <= self.len, "cannot advance past the end");
        self.start += n;
        self.len -= n;
    }
    pub fn writer(self) -> Writer {
        Writer { b: self }
    }
}
impl core::ops::Deref for BytesMut {
    type Target = [u8];
    fn deref(&self) -> &[u8] {
        &self.buf[self.start..self.start + self.len]
    }
}
impl core::ops::DerefMut for BytesMut {
    fn deref_mut(&mut self) -> &mut [u8] {
        &mut self.buf[self.start..self.start + self.len]
    }
}
pub struct Writer {
    pub b: BytesMut,
}
impl Writer {
    pub fn into_inner(self) -> BytesMut {
        self.b
    }
}

/// a replication message, identified with its JSON text: 1..=3 bytes
#[derive(Clone, Copy, Debug, PartialEq, Eq)]
pub struct Msg {
    pub n: usize,
    pub b: [u8; 3],
}
pub trait Serialize {
    fn payload(&self) -> Msg;
}
impl Serialize for Msg {
    fn payload(&self) -> Msg {
        *self
    }
}
pub trait DeserializeOwned: Sized {
    fn from_payload(m: Msg) -> Self;
}
impl DeserializeOwned for Msg {
    fn from_payload(m: Msg) -> Self {
        m
    }
}
pub mod serde_json {
    use super::*;
    #[derive(Debug)]
    pub struct Error;
    /// injective: writes exactly the message text
    pub fn to_writer<W: core::borrow::BorrowMut<Writer>, T: Serialize>(mut w: W, v: &T) -> Result<(), Error> {
        let m = v.payload();
        let wr: &mut Writer = w.borrow_mut();
        let mut i = 0;
        while i < 3 {
            if i < m.n {
                wr.b.extend_from_slice(&[m.b[i]]);
            }
            i += 1;
        }
        Ok(())
    }
    /// accepts exactly the texts of messages (1..=3 bytes, first byte not 0xff = "not JSON")
    pub fn from_slice<T: DeserializeOwned>(s: &[u8]) -> Result<T, Error> {
        if s.is_empty() || s.len() > 3 || s[0] == 0xff {
            return Err(Error);
        }
        let mut b = [0u8; 3];
        let mut i = 0;
        while i < 3 {
            if i < s.len() {
                b[i] = s[i];
            }
            i += 1;
        }
        Ok(T::from_payload(Msg { n: s.len(), b }))
    }
}
pub trait Buf {}
pub trait BufMut {}

include!("slice.rs");

#[cfg(kani)]
mod harness;
