//! K-slice crate for C33.  Generated on every run from /repo, text unchanged:
//!   slice_types.rs  value.rs :: enum AuthType, enum SessionScope;  server/identity.rs :: enum
//!                   AccessScope, impl From<&ApiTokenPurpose> for AccessScope;
//!                   proto internal/token.rs :: enum UatPurpose, enum ApiTokenPurpose;
//!                   constants :: DEFAULT_AUTH_SESSION_LIMITED_EXPIRY
//!   slice_fns.rs    idm/account.rs :: Account::{to_userauthtoken, to_reissue_userauthtoken};
//!                   idm/authsession/mod.rs :: the two `let scope = match auth_type {..};`
//!                   statements of AuthSession::issue_uat (initial login / re-authentication);
//!                   idm/server.rs :: the `let scope = match uat.purpose {..};` statement of
//!                   process_uat_to_identity -- each wrapped in a function shell
//! Models: OffsetDateTime as (seconds, nanoseconds); the account and policy as the fields read;
//! UserAuthToken as a plain struct with the same field names; empty logging macros.
#![allow(dead_code, unused_imports, unused_variables, unused_macros)]

use noop_derive::{Deserialize, Serialize, ToSchema};
use std::time::Duration;

macro_rules! warn { ($($t:tt)*) => { () }; }
macro_rules! error { ($($t:tt)*) => { () }; }

#[derive(Clone, Copy, Debug, PartialEq, Eq, PartialOrd, Ord)]
pub struct OffsetDateTime {
    pub secs: i64,
    pub nanos: u32,
}
impl OffsetDateTime {
    pub const UNIX_EPOCH: OffsetDateTime = OffsetDateTime { secs: 0, nanos: 0 };
}
impl core::ops::Add<Duration> for OffsetDateTime {
    type Output = OffsetDateTime;
    fn add(self, d: Duration) -> OffsetDateTime {
        let mut secs = self.secs + d.as_secs() as i64;
        let mut nanos = self.nanos + d.subsec_nanos();
        if nanos >= 1_000_000_000 {
            nanos -= 1_000_000_000;
            secs += 1;
        }
        OffsetDateTime { secs, nanos }
    }
}
pub mod time {
    pub use super::OffsetDateTime;
}

#[derive(Clone, Copy, Debug, PartialEq, Eq)]
pub struct Uuid(pub u8);
#[derive(Clone, Copy, Debug, PartialEq, Eq)]
pub struct Opaque(pub u8);

#[derive(Clone, Copy, Debug, PartialEq, Eq)]
pub enum OperationError {
    AU0006CredentialMayNotReauthenticate,
}

include!("slice_types.rs");

#[derive(Clone, Debug)]
pub struct UserAuthToken {
    pub session_id: Uuid,
    pub issued_at: OffsetDateTime,
    pub expiry: Option<OffsetDateTime>,
    pub purpose: UatPurpose,
    pub uuid: Uuid,
    pub displayname: Opaque,
    pub spn: Opaque,
    pub mail_primary: Option<Opaque>,
    pub ui_hints: Opaque,
    pub limit_search_max_results: Option<u64>,
    pub limit_search_max_filter_test: Option<u64>,
}

pub struct ResolvedAccountPolicy {
    pub privilege_expiry: u32,
    pub authsession_expiry: u32,
    pub limit_search_max_filter_test: Option<u64>,
    pub limit_search_max_results: Option<u64>,
}
impl ResolvedAccountPolicy {
    pub fn privilege_expiry(&self) -> u32 {
        self.privilege_expiry
    }
    pub fn authsession_expiry(&self) -> u32 {
        self.authsession_expiry
    }
    pub fn limit_search_max_results(&self) -> Option<u64> {
        self.limit_search_max_results
    }
    pub fn limit_search_max_filter_test(&self) -> Option<u64> {
        self.limit_search_max_filter_test
    }
}

pub struct Account {
    pub uuid: Uuid,
    pub displayname: Opaque,
    pub spn: Opaque,
    pub mail_primary: Option<Opaque>,
    pub ui_hints: Opaque,
}

include!("slice_fns.rs");

#[cfg(kani)]
mod harness;
