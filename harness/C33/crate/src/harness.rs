use super::*;

macro_rules! check {
    ($c:expr, $m:literal) => {
        kani::assert($c, $m)
    };
}

fn any_auth_type() -> AuthType {
    let k: u8 = kani::any();
    kani::assume(k < 9);
    match k {
        0 => AuthType::Anonymous,
        1 => AuthType::Password,
        2 => AuthType::GeneratedPassword,
        3 => AuthType::PasswordTotp,
        4 => AuthType::PasswordBackupCode,
        5 => AuthType::PasswordSecurityKey,
        6 => AuthType::Passkey,
        7 => AuthType::AttestedPasskey,
        _ => AuthType::OAuth2Trust,
    }
}
fn any_ct() -> Duration {
    let s: u64 = kani::any();
    let n: u32 = kani::any();
    kani::assume(n < 1_000_000_000 && s < (1 << 40));
    Duration::new(s, n)
}
fn now_of(ct: Duration) -> OffsetDateTime {
    OffsetDateTime { secs: ct.as_secs() as i64, nanos: ct.subsec_nanos() }
}
fn any_policy() -> ResolvedAccountPolicy {
    ResolvedAccountPolicy { privilege_expiry: kani::any(), authsession_expiry: kani::any(), limit_search_max_filter_test: None, limit_search_max_results: None }
}
fn acct() -> Account {
    Account { uuid: Uuid(kani::any()), displayname: Opaque(0), spn: Opaque(0), mail_primary: None, ui_hints: Opaque(0) }
}
/// what a token lets its bearer do at `use_ct` (the sliced mapping of process_uat_to_identity)
fn writes_at(uat: &UserAuthToken, use_ct: Duration) -> bool {
    access_scope_of(uat, use_ct) == AccessScope::ReadWrite
}

/// Initial login: scope per login type, then the token; write access is confined to a window of
/// at most one hour from the login, and an ordinary (non-privileged) login cannot write at all.
#[kani::proof]
fn c33_initial_login_privilege_window() {
    let at = any_auth_type();
    let privileged: bool = kani::any();
    let scope = initial_scope(at, privileged);
    let ct = any_ct();
    let pol = any_policy();
    let uat = match acct().to_userauthtoken(Uuid(1), scope, ct, &pol) {
        Some(u) => u,
        None => {
            check!(false, "C33: an interactive login yields a token");
            return;
        }
    };
    let use_ct = any_ct();
    let w = writes_at(&uat, use_ct);
    if matches!(at, AuthType::Anonymous | AuthType::OAuth2Trust) {
        check!(!w, "C33: anonymous and OAuth2-trust sessions are always read-only");
    }
    if !privileged && !matches!(at, AuthType::GeneratedPassword) {
        check!(!w, "C33: an ordinary (non-privileged) login is read-only until re-authentication");
    }
    if w {
        // bounded window starting at the authentication
        check!(now_of(use_ct) < now_of(ct) + Duration::from_secs(3600), "C33: write access only inside a bounded window (<= 1 h) that starts at the authentication");
        check!(uat.expiry.map(|e| now_of(use_ct) < e).unwrap_or(false), "C33: the write window never outlives the session");
    }
    check!(uat.issued_at == OffsetDateTime { secs: ct.as_secs() as i64, nanos: 0 }, "C33: token is stamped with the login time");
    kani::cover!(w && privileged && matches!(at, AuthType::PasswordBackupCode), "privileged backup-code login may write");
    kani::cover!(!w && privileged && use_ct > ct, "write window over");
    kani::cover!(w && pol.authsession_expiry < 3600, "short session bounds the window");
}

/// Re-authentication: only interactive credential types may re-authenticate; the new write
/// window is bounded by the policy's privilege expiry from the re-authentication time; and the
/// overall session expiry is exactly the original one.
#[kani::proof]
fn c33_reauth_privilege_window() {
    let at = any_auth_type();
    let scope = match reauth_scope(at) {
        Ok(s) => s,
        Err(_) => {
            check!(matches!(at, AuthType::Anonymous | AuthType::GeneratedPassword | AuthType::OAuth2Trust), "C33: only non-interactive login types are refused re-authentication");
            return;
        }
    };
    check!(!matches!(at, AuthType::Anonymous | AuthType::OAuth2Trust | AuthType::GeneratedPassword), "C33: anonymous / OAuth2-trust / generated-password sessions cannot re-authenticate");
    let ct = any_ct();
    let pol = any_policy();
    let read_write: bool = kani::any();
    let session_expiry = if kani::any() { Some(OffsetDateTime { secs: kani::any::<u32>() as i64, nanos: 0 }) } else { None };
    let uat = match acct().to_reissue_userauthtoken(Uuid(1), session_expiry, scope, read_write, ct, &pol) {
        Some(u) => u,
        None => {
            check!(false, "C33: a valid re-authentication yields a token");
            return;
        }
    };
    check!(uat.expiry == session_expiry, "C33: re-authentication never extends the overall session expiry");
    let use_ct = any_ct();
    let w = writes_at(&uat, use_ct);
    if !read_write {
        check!(!w, "C33: re-authentication without a privilege request stays read-only");
    }
    if w {
        check!(now_of(use_ct) < now_of(ct) + Duration::from_secs(pol.privilege_expiry as u64), "C33: write access only inside the privilege window that starts at the re-authentication");
    }
    kani::cover!(w, "write after reauth");
    kani::cover!(read_write && !w && use_ct > ct, "privilege window over");
}

/// Token scopes that never confer write access, and API tokens.
#[kani::proof]
fn c33_readonly_tokens_and_api_tokens() {
    let ct = any_ct();
    let ro = UserAuthToken { session_id: Uuid(0), issued_at: now_of(ct), expiry: None, purpose: UatPurpose::ReadOnly, uuid: Uuid(0), displayname: Opaque(0), spn: Opaque(0), mail_primary: None, ui_hints: Opaque(0), limit_search_max_results: None, limit_search_max_filter_test: None };
    check!(!writes_at(&ro, any_ct()), "C33: a read-only token never writes");
    let pc = UserAuthToken { purpose: UatPurpose::ReadWrite { expiry: None }, ..ro.clone() };
    check!(!writes_at(&pc, any_ct()), "C33: a privilege-capable token without an open window never writes");
    check!(AccessScope::from(&ApiTokenPurpose::ReadOnly) == AccessScope::ReadOnly, "C33: read-only API tokens are read-only");
    check!(AccessScope::from(&ApiTokenPurpose::ReadWrite) == AccessScope::ReadWrite, "C33: read-write API tokens write");
    check!(AccessScope::from(&ApiTokenPurpose::Synchronise) == AccessScope::Synchronise, "C33: sync tokens are scoped to synchronisation");
    // a synchronise session scope never yields a user token
    let sync = acct().to_userauthtoken(Uuid(1), SessionScope::Synchronise, ct, &any_policy());
    check!(sync.is_none(), "C33: a synchronise scope never yields a user token");
    kani::cover!(ct.as_secs() > 5, "reachable");
}

/// Reachability twin: must FAIL.
#[kani::proof]
fn c33_twin_must_fail() {
    let scope = initial_scope(any_auth_type(), kani::any());
    let uat = acct().to_userauthtoken(Uuid(1), scope, any_ct(), &any_policy());
    check!(uat.is_some(), "reach");
    kani::assert(false, "twin: reachable");
}
