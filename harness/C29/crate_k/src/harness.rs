use super::*;

macro_rules! check {
    ($c:expr, $m:literal) => {
        kani::assert($c, $m)
    };
}

/// The real TotpAlgo::digest for a secret of ANY length 0..=200: the RFC 6238 code is defined
/// for it (HMAC hashes a key longer than its block size first, RFC 2104), so the HMAC must be
/// computed, over the 8-byte big-endian counter, with exactly the secret as key.
fn key_handling(algo: TotpAlgo, block: usize, out: usize) {
    let buf: [u8; 200] = kani::any();
    let len: usize = kani::any();
    kani::assume(len <= 200);
    let counter: u64 = kani::any();
    unsafe {
        SEEN.constructed = 0;
        SEEN.updates = 0;
        SEEN.digest = kani::any();
    }
    let r = algo.digest(&buf[..len], counter);
    let s = unsafe { &SEEN };
    let ok = r.is_ok();
    match r {
        Ok(v) => {
            check!(v.len() == out, "C29: the HMAC output has the length of the algorithm's digest");
            let i: usize = kani::any();
            kani::assume(i < out);
            check!(v[i] == s.digest[i], "C29: the digest used is the HMAC's output");
            check!(s.updates == 1 && s.msg_len == 8 && u64::from_be_bytes(s.msg) == counter, "C29: HMAC is computed over the 8-byte big-endian time-step counter (RFC 4226)");
            // the key: either the secret itself, or the secret zero-padded to the block size
            // (the same HMAC key by RFC 2104); checked at one arbitrary position = at all
            let j: usize = kani::any();
            kani::assume(j < 200);
            match s.constructed {
                1 => {
                    check!(len <= block && s.key_len == block, "C29: a zero-padded key buffer can only stand for a secret up to the block size");
                    if j < block {
                        check!(s.key[j] == if j < len { buf[j] } else { 0 }, "C29: the HMAC key is the token's secret");
                    }
                }
                2 => {
                    check!(s.key_len == len, "C29: the HMAC key is the token's secret");
                    if j < len {
                        check!(s.key[j] == buf[j], "C29: the HMAC key is the token's secret");
                    }
                }
                _ => check!(false, "C29: a digest was produced without HMAC"),
            }
        }
        Err(_) => {
            check!(false, "C29: every secret has an RFC 6238 code (a key longer than the hash block is hashed first): the HMAC must not be refused");
        }
    }
    kani::cover!(ok && len == 0, "empty secret");
    kani::cover!(ok && len == block, "secret of exactly the block size");
    kani::cover!(ok && len == 200, "secret longer than the block size");
}

#[kani::proof]
#[kani::unwind(4)]
fn c29_key_handling_sha1() {
    key_handling(TotpAlgo::Sha1, 64, 20);
}
#[kani::proof]
#[kani::unwind(4)]
fn c29_key_handling_sha256() {
    key_handling(TotpAlgo::Sha256, 64, 32);
}
#[kani::proof]
#[kani::unwind(4)]
fn c29_key_handling_sha512() {
    key_handling(TotpAlgo::Sha512, 128, 64);
}

/// Reachability twin: must FAIL.
#[kani::proof]
#[kani::unwind(4)]
fn c29k_twin_must_fail() {
    key_handling(TotpAlgo::Sha1, 64, 20);
    kani::assert(false, "twin: reachable");
}
