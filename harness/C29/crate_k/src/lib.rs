//! K-slice crate for C29, part 2 (how the secret reaches HMAC).  `slice.rs` is generated on every
//! run from /repo/server/lib/src/credential/totp.rs: enum TotpError, enum TotpAlgo and the whole
//! `impl TotpAlgo` (the real `digest`), text unchanged.  The model is one level lower than in
//! part 1: the HMAC primitive itself (crypto_glue's key buffers and `Hmac<..>` with the RustCrypto
//! `Mac` API: new / new_from_slice / update / finalize), which records the key and the message it
//! was given and answers with a symbolic digest of the right length.
#![allow(dead_code, unused_imports, unused_variables, static_mut_refs)]

use std::convert::{TryFrom, TryInto};

/// what the HMAC primitive was asked
pub struct Seen {
    pub constructed: u8,     // 0 not yet, 1 = new(&padded key buffer), 2 = new_from_slice(bytes)
    pub key: [u8; 200],      // the bytes handed over (the whole buffer for 1)
    pub key_len: usize,
    pub msg: [u8; 8],
    pub msg_len: usize,
    pub updates: u8,
    pub digest: [u8; 64],    // the answer (symbolic, set by the harness)
}
pub static mut SEEN: Seen = Seen { constructed: 0, key: [0; 200], key_len: 0, msg: [0; 8], msg_len: 0, updates: 0, digest: [0; 64] };

pub struct InvalidLength;

/// Zeroizing<Key<Hmac<D>>>: a zeroed buffer of the hash's block size
pub struct KeyBuf<const N: usize> {
    b: [u8; N],
}
impl<const N: usize> Default for KeyBuf<N> {
    fn default() -> Self {
        KeyBuf { b: [0; N] }
    }
}
impl<const N: usize> KeyBuf<N> {
    pub fn as_slice(&self) -> &[u8] {
        &self.b
    }
    pub fn as_mut_slice(&mut self) -> &mut [u8] {
        &mut self.b
    }
}
pub type HmacSha1Key = KeyBuf<64>;
pub type HmacSha256Key = KeyBuf<64>;
pub type HmacSha512Key = KeyBuf<128>;

pub struct HmacModel<const BLOCK: usize, const OUT: usize>;
pub type HmacSha1 = HmacModel<64, 20>;
pub type HmacSha256 = HmacModel<64, 32>;
pub type HmacSha512 = HmacModel<128, 64>;

pub struct MacOut<const OUT: usize>;
pub struct MacBytes<const OUT: usize>;
impl<const OUT: usize> MacOut<OUT> {
    pub fn into_bytes(self) -> MacBytes<OUT> {
        MacBytes
    }
}
impl<const OUT: usize> MacBytes<OUT> {
    pub fn to_vec(&self) -> Vec<u8> {
        unsafe { SEEN.digest[..OUT].to_vec() }
    }
}

fn remember_key(kind: u8, k: &[u8]) {
    let s = unsafe { &mut SEEN };
    s.constructed = kind;
    s.key_len = k.len();
    let n = if k.len() < 200 { k.len() } else { 200 };
    s.key[..n].copy_from_slice(&k[..n]);
}

/// the part of RustCrypto's `Mac` (+ `KeyInit`) that callers use
pub trait Mac: Sized {
    type Key;
    type Out;
    fn new(key: &Self::Key) -> Self;
    /// HMAC accepts a key of any length (RFC 2104)
    fn new_from_slice(key: &[u8]) -> Result<Self, InvalidLength>;
    fn update(&mut self, data: &[u8]);
    fn finalize(self) -> Self::Out;
}
impl<const BLOCK: usize, const OUT: usize> Mac for HmacModel<BLOCK, OUT> {
    type Key = KeyBuf<BLOCK>;
    type Out = MacOut<OUT>;
    fn new(key: &KeyBuf<BLOCK>) -> Self {
        remember_key(1, key.as_slice());
        HmacModel
    }
    fn new_from_slice(key: &[u8]) -> Result<Self, InvalidLength> {
        remember_key(2, key);
        Ok(HmacModel)
    }
    fn update(&mut self, data: &[u8]) {
        let s = unsafe { &mut SEEN };
        s.updates += 1;
        s.msg_len = data.len();
        if data.len() == 8 {
            s.msg.copy_from_slice(data);
        }
    }
    fn finalize(self) -> MacOut<OUT> {
        MacOut
    }
}

include!("slice.rs");

#[cfg(kani)]
mod harness;
