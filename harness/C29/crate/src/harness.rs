use super::*;

macro_rules! check {
    ($c:expr, $m:literal) => {
        kani::assert($c, $m)
    };
}

/// RFC 4226 section 5.3 dynamic truncation, written from the RFC.
fn hotp(d: &[u8], len: usize, digits: u32) -> u32 {
    let off = (d[len - 1] & 0x0f) as usize;
    let p = ((d[off] as u32 & 0x7f) << 24) | ((d[off + 1] as u32) << 16) | ((d[off + 2] as u32) << 8) | (d[off + 3] as u32);
    let m = if digits == 6 { 1_000_000 } else { 100_000_000 };
    p % m
}

fn run(algo: TotpAlgo, len: usize, step: u64) {
    let digits6: bool = kani::any();
    let digits = if digits6 { TotpDigits::Six } else { TotpDigits::Eight };
    // the secret is irrelevant to the modelled HMAC; two arbitrary bytes keep it symbolic
    let k: [u8; 2] = kani::any();
    let totp = Totp::new(vec![k[0], k[1]], step, algo, digits);
    let secs: u64 = kani::any();
    let nanos: u32 = kani::any();
    kani::assume(nanos < 1_000_000_000);
    kani::assume(secs >= step);
    let time = Duration::new(secs, nanos);
    let chal: u32 = kani::any();
    let cur = secs / step;
    unsafe {
        ORACLE.cur = cur;
        ORACLE.d_cur = kani::any();
        ORACLE.d_prev = kani::any();
        ORACLE.err_cur = kani::any();
        ORACLE.err_prev = kani::any();
        ORACLE.len = len;
        ORACLE.calls = 0;
    }
    let got = totp.verify(chal, time);
    let (c, p, ec, ep) = unsafe { (ORACLE.d_cur, ORACLE.d_prev, ORACLE.err_cur, ORACLE.err_prev) };
    let n = if digits6 { 6 } else { 8 };
    let want = (!ec && chal == hotp(&c, len, n)) || (!ep && chal == hotp(&p, len, n));
    check!(got == want, "C29: accepted exactly when the code is the RFC 6238 code of the current or the previous step");
    // the one-shot generator agrees with verify on the current step
    if !ec {
        unsafe { ORACLE.err_cur = false; }
        let gen = totp.do_totp_duration_from_epoch(&time);
        check!(gen == Ok(hotp(&c, len, n)), "C29: generated code is the RFC 4226 truncation of the current step's HMAC");
    }
    kani::cover!(got && chal == hotp(&p, len, n) && chal != hotp(&c, len, n), "accepted on previous step only");
    kani::cover!(got && chal == hotp(&c, len, n) && !digits6, "accepted on current step, 8 digits");
    kani::cover!(!got && !ec && !ep, "rejected");
    kani::cover!(!got && ec && chal == hotp(&c, len, n), "hmac error never accepts");
    kani::cover!(c[len - 1] & 0x0f == 15 && got, "offset 15");
}

#[kani::proof]
#[kani::unwind(66)]
fn c29_sha1_step30() {
    run(TotpAlgo::Sha1, 20, 30);
}

#[kani::proof]
#[kani::unwind(66)]
fn c29_sha256_step30() {
    run(TotpAlgo::Sha256, 32, 30);
}

#[kani::proof]
#[kani::unwind(66)]
fn c29_sha512_step30() {
    run(TotpAlgo::Sha512, 64, 30);
}

#[kani::proof]
#[kani::unwind(66)]
fn c29_sha1_step60() {
    run(TotpAlgo::Sha1, 20, 60);
}

#[kani::proof]
#[kani::unwind(66)]
fn c29_sha256_step1() {
    run(TotpAlgo::Sha256, 32, 1);
}

#[kani::proof]
#[kani::unwind(66)]
fn c29_sha512_step37() {
    run(TotpAlgo::Sha512, 64, 37);
}

/// Reachability twin: must FAIL.
#[kani::proof]
#[kani::unwind(66)]
fn c29_twin_must_fail() {
    let totp = Totp::new(vec![1, 2], 30, TotpAlgo::Sha1, TotpDigits::Six);
    let secs: u64 = kani::any();
    kani::assume(secs >= 30);
    unsafe {
        ORACLE.cur = secs / 30;
        ORACLE.d_cur = kani::any();
        ORACLE.d_prev = kani::any();
    }
    let got = totp.verify(kani::any(), Duration::new(secs, 0));
    check!(got || !got, "reach");
    kani::assert(false, "twin: reachable");
}
