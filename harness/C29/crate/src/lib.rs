//! K-slice crate for C29.  `slice.rs` is generated on every run from
//! /repo/server/lib/src/credential/totp.rs: enum TotpError, enum TotpDigits, enum TotpAlgo,
//! struct Totp, and the methods Totp::{new, digest, do_totp_duration_from_epoch, verify} with
//! their text unchanged.  The only model is `TotpAlgo::digest` (HMAC-SHA1/256/512): an
//! uninterpreted function given by a table the harness fills with symbolic bytes.
#![allow(dead_code, unused_imports, unused_variables, static_mut_refs)]

use std::convert::{TryFrom, TryInto};
use std::time::Duration;

include!("slice.rs");

/// The HMAC oracle: for the counters `cur` and `cur - 1` it returns the table entries, for any
/// other counter a fresh arbitrary digest of the right length (so a mutant that asks for another
/// counter can be made to accept any challenge).  `err_*` makes the corresponding call fail the
/// way a bad key does.
pub struct Oracle {
    pub cur: u64,
    pub d_cur: [u8; 64],
    pub d_prev: [u8; 64],
    pub err_cur: bool,
    pub err_prev: bool,
    pub len: usize,
    pub calls: u32,
}

pub static mut ORACLE: Oracle = Oracle {
    cur: 0,
    d_cur: [0; 64],
    d_prev: [0; 64],
    err_cur: false,
    err_prev: false,
    len: 20,
    calls: 0,
};

impl TotpAlgo {
    pub(crate) fn digest(self, _key_bytes: &[u8], counter: u64) -> Result<Vec<u8>, TotpError> {
        let o = unsafe { &mut ORACLE };
        o.calls += 1;
        let len = match self {
            TotpAlgo::Sha1 => 20,
            TotpAlgo::Sha256 => 32,
            TotpAlgo::Sha512 => 64,
        };
        if counter == o.cur {
            if o.err_cur {
                return Err(TotpError::InvalidKeyError);
            }
            Ok(o.d_cur[..len].to_vec())
        } else if o.cur > 0 && counter == o.cur - 1 {
            if o.err_prev {
                return Err(TotpError::InvalidKeyError);
            }
            Ok(o.d_prev[..len].to_vec())
        } else {
            #[cfg(kani)]
            {
                let other: [u8; 64] = kani::any();
                return Ok(other[..len].to_vec());
            }
            #[cfg(not(kani))]
            Ok(vec![0u8; len])
        }
    }
}

#[cfg(kani)]
mod harness;
