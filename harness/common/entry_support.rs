// Support module injected as a child of server/lib/src/entry.rs: builds entries directly from an
// attribute map (the struct fields are private to entry.rs) so that harnesses can skip schema
// and database initialisation ("drive the unit, not the program").
#![allow(dead_code)]
use super::*;
use crate::repl::cid::Cid;
use crate::repl::entry::EntryChangeState;

pub(crate) fn mk_invalid_new(attrs: Eattrs, cid: Cid) -> Entry<EntryInvalid, EntryNew> {
    let ecstate = EntryChangeState::new_without_schema(&cid, &attrs);
    Entry {
        valid: EntryInvalid { cid, ecstate },
        state: EntryNew,
        attrs,
    }
}

pub(crate) fn mk_invalid_committed(attrs: Eattrs, cid: Cid, id: u64) -> Entry<EntryInvalid, EntryCommitted> {
    let ecstate = EntryChangeState::new_without_schema(&cid, &attrs);
    Entry {
        valid: EntryInvalid { cid, ecstate },
        state: EntryCommitted { id },
        attrs,
    }
}

pub(crate) fn mk_sealed_committed(attrs: Eattrs, cid: Cid, id: u64) -> Entry<EntrySealed, EntryCommitted> {
    let ecstate = EntryChangeState::new_without_schema(&cid, &attrs);
    let uuid = attrs
        .get(&Attribute::Uuid)
        .and_then(|vs| vs.to_uuid_single())
        .unwrap_or(Uuid::nil());
    Entry {
        valid: EntrySealed { uuid, ecstate },
        state: EntryCommitted { id },
        attrs,
    }
}

pub(crate) fn mk_reduced(attrs: Eattrs, uuid: Uuid, id: u64) -> Entry<EntryReduced, EntryCommitted> {
    Entry {
        valid: EntryReduced { uuid, effective_access: None },
        state: EntryCommitted { id },
        attrs,
    }
}

pub(crate) fn attrs_of<V, S>(e: &Entry<V, S>) -> &Eattrs {
    &e.attrs
}
