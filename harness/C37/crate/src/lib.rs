//! K-slice crate for C37 (credential-reset links are single use).  Generated on every run from
//! /repo, text unchanged: value.rs :: enum IntentTokenState; idm/credupdatesession.rs ::
//! const MAXIMUM_CRED_UPDATE_TTL, fn expire_credential_update_sessions, and the STATEMENTS of
//! exchange_intent_credential_update, create_credupdate_session, credential_update_commit_common,
//! commit_credential_update and cancel_credential_update that read, decide on and rewrite the
//! intent token state (see spec.json); the shells that put the statements in order are in
//! slice_fns.rs (raw text from spec.json) and restate the order of the original methods.
//! Models: the account as its intent-token map; the entry modify as "apply Removed / Present to
//! that map"; the in-memory session table as a sorted-array map; uuid_from_duration as the
//! (injective) time itself; JWE token sealing as identity.
#![allow(dead_code, unused_imports, unused_variables, unused_macros, unused_mut)]

use noop_derive::{Deserialize, Serialize};
use std::time::Duration;

macro_rules! trace { ($($t:tt)*) => { () }; }
macro_rules! security_info { ($($t:tt)*) => { () }; }
macro_rules! admin_error { ($($t:tt)*) => { () }; }
macro_rules! request_error { ($($t:tt)*) => { () }; }

pub const MAP_CAP: usize = 4;
include!("/verif/models/shim/btreemap.rs");

#[derive(Clone, Copy, Debug, PartialEq, Eq)]
pub enum OperationError {
    SessionExpired,
    InvalidState,
    CU0004SessionInconsistent,
    CU0005IntentTokenConflict,
    CU0006IntentTokenInvalidated,
    Wait,
}

/// session ids: uuid_from_duration(time, sid) orders by time; modelled as the time itself
#[derive(Clone, Copy, Debug, PartialEq, Eq, PartialOrd, Ord)]
pub struct Uuid(pub Duration);
pub fn uuid_from_duration(d: Duration, _sid: Sid) -> Uuid {
    Uuid(d)
}
#[derive(Clone, Copy, Debug, PartialEq, Eq)]
pub struct Sid(pub u8);
impl core::fmt::Display for Uuid {
    fn fmt(&self, _f: &mut core::fmt::Formatter<'_>) -> core::fmt::Result {
        Ok(())
    }
}

/// the intent id text
#[derive(Clone, Copy, Debug, PartialEq, Eq, PartialOrd, Ord)]
pub struct IntentId(pub u8);
#[derive(Clone, Copy, Debug, PartialEq, Eq)]
pub struct CredUpdateSessionPerms(pub u8);

#[derive(Clone, Copy, Debug, PartialEq, Eq)]
pub enum Attribute {
    CredentialUpdateIntentToken,
}
#[derive(Clone, Copy, Debug, PartialEq, Eq)]
pub enum PartialValue {
    IntentToken(IntentId),
}
#[derive(Clone, Copy, Debug, PartialEq, Eq)]
pub enum Value {
    IntentToken(IntentId, IntentTokenState),
}
#[derive(Clone, Copy, Debug, PartialEq, Eq)]
pub enum Modify {
    Removed(Attribute, PartialValue),
    Present(Attribute, Value),
}
/// a modify list of at most 4 modifications
#[derive(Clone, Copy, Debug)]
pub struct ModifyList {
    pub n: usize,
    pub mods: [Option<Modify>; 4],
}
impl ModifyList {
    pub fn new() -> Self {
        ModifyList { n: 0, mods: [None; 4] }
    }
    pub fn push_mod(&mut self, m: Modify) {
        if self.n < 4 {
            self.mods[self.n] = Some(m);
        }
        self.n += 1;
    }
    pub fn is_empty(&self) -> bool {
        self.n == 0
    }
}

#[derive(Clone, Copy, Debug)]
pub struct Account {
    pub uuid: u8,
    pub credential_update_intent_tokens: BTreeMap<IntentId, IntentTokenState>,
}
#[derive(Clone, Copy, Debug)]
pub struct CredentialUpdateSession {
    pub intent_token_id: Option<IntentId>,
    /// outcome of CredentialUpdateSession::can_commit (credential-content rules: outside)
    pub can_commit: bool,
}
#[derive(Clone, Copy, Debug, PartialEq, Eq)]
pub struct CredentialUpdateSessionTokenInner {
    pub sessionid: Uuid,
    pub max_ttl: Duration,
}

/// IdmServerProxyWriteTransaction, as far as the intent-token life cycle goes
pub struct Idm {
    pub sid: Sid,
    pub account: Account,
    pub cred_update_sessions: BTreeMap<Uuid, CredentialUpdateSession>,
}
impl Idm {
    /// qs_write.internal_modify on the account entry: apply the list in order
    pub fn apply(&mut self, ml: &ModifyList) {
        let mut i = 0;
        while i < 4 {
            if i < ml.n {
                match ml.mods[i] {
                    Some(Modify::Removed(_, PartialValue::IntentToken(id))) => {
                        self.account.credential_update_intent_tokens.remove(&id);
                    }
                    Some(Modify::Present(_, Value::IntentToken(id, st))) => {
                        self.account.credential_update_intent_tokens.insert(id, st);
                    }
                    None => {}
                }
            }
            i += 1;
        }
    }
}
/// concread's split_off_lt on the session table
impl BTreeMap<Uuid, CredentialUpdateSession> {
    pub fn split_off_lt(&mut self, k: &Uuid) {
        let k = *k;
        self.retain(|kk, _| *kk >= k);
    }
}

include!("slice_types.rs");
include!("slice_fns.rs");

#[cfg(kani)]
mod harness;
