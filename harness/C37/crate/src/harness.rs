use super::*;

macro_rules! check {
    ($c:expr, $m:literal) => {
        kani::assert($c, $m)
    };
}

fn any_time() -> Duration {
    let s: u64 = kani::any();
    let n: u32 = kani::any();
    kani::assume(s < (1u64 << 40) && n < 1_000_000_000);
    Duration::new(s, n)
}

const LINK: IntentId = IntentId(7);

fn fresh(max_ttl: Duration) -> Idm {
    let mut tokens: BTreeMap<IntentId, IntentTokenState> = BTreeMap::default();
    tokens.insert(LINK, IntentTokenState::Valid { max_ttl, perms: CredUpdateSessionPerms(kani::any()) });
    Idm { sid: Sid(kani::any()), account: Account { uuid: 1, credential_update_intent_tokens: tokens }, cred_update_sessions: BTreeMap::default() }
}

/// One link; 4 operations, each an exchange, or a commit / cancel of any session handed out so
/// far, at strictly increasing times.
#[kani::proof]
#[kani::unwind(6)]
fn c37_link_is_single_use_4_ops() {
    let link_expiry = any_time();
    let mut idm = fresh(link_expiry);
    // sessions handed out, in order; `latest` = index of the last successful exchange
    let mut handed: [Option<CredentialUpdateSessionTokenInner>; 4] = [None; 4];
    let mut n_handed = 0usize;
    let mut commits = 0u8;
    let mut now = Duration::ZERO;
    let mut step = 0;
    let mut saw_superseded_refused = false;
    let mut saw_exchange_after_cancel = false;
    let mut cancelled = false;
    while step < 4 {
        let t = any_time();
        kani::assume(t > now);
        now = t;
        let op: u8 = kani::any();
        kani::assume(op < 3);
        if op == 0 {
            match idm.exchange(LINK, t) {
                Ok(tok) => {
                    check!(commits == 0, "C37: once a change committed through the link, the link can no longer be exchanged");
                    check!(t < link_expiry, "C37: an expired link can no longer be exchanged");
                    if cancelled {
                        saw_exchange_after_cancel = true;
                    }
                    handed[n_handed] = Some(tok);
                    n_handed += 1;
                }
                Err(_) => {}
            }
        } else {
            let k: usize = kani::any();
            kani::assume(k < n_handed);
            let tok = match handed[k] {
                Some(t) => t,
                None => unreachable!(),
            };
            if op == 1 {
                // is the content committable? (credential rules: outside)
                let committable: bool = kani::any();
                if let Some(s) = idm.cred_update_sessions.get_mut(&tok.sessionid) {
                    s.can_commit = committable;
                }
                match idm.commit(tok, t) {
                    Ok(()) => {
                        commits += 1;
                        check!(commits <= 1, "C37: a reset link leads to at most one committed credential change");
                        check!(k + 1 == n_handed, "C37: a reset session superseded by a later exchange of the same link cannot commit");
                    }
                    Err(_) => {
                        if k + 1 < n_handed {
                            saw_superseded_refused = true;
                        }
                    }
                }
            } else {
                match idm.cancel(tok, t) {
                    Ok(()) => {
                        check!(k + 1 == n_handed, "C37: a superseded reset session cannot put the link back to valid");
                        cancelled = true;
                    }
                    Err(_) => {}
                }
            }
        }
        step += 1;
    }
    kani::cover!(commits == 1, "one change committed");
    kani::cover!(n_handed >= 2, "link exchanged twice");
    kani::cover!(saw_superseded_refused, "superseded session refused at commit");
    kani::cover!(saw_exchange_after_cancel, "link exchanged again after a cancel");
}

/// One exchange from an arbitrary token state.
#[kani::proof]
#[kani::unwind(6)]
fn c37_exchange_from_any_state() {
    let max_ttl = any_time();
    let perms = CredUpdateSessionPerms(kani::any());
    let which: u8 = kani::any();
    kani::assume(which < 4);
    let mut tokens: BTreeMap<IntentId, IntentTokenState> = BTreeMap::default();
    match which {
        0 => {}
        1 => {
            tokens.insert(LINK, IntentTokenState::Valid { max_ttl, perms });
        }
        2 => {
            tokens.insert(LINK, IntentTokenState::InProgress { max_ttl, perms, session_id: Uuid(any_time()), session_ttl: any_time() });
        }
        _ => {
            tokens.insert(LINK, IntentTokenState::Consumed { max_ttl });
        }
    }
    let mut idm = Idm { sid: Sid(0), account: Account { uuid: 1, credential_update_intent_tokens: tokens }, cred_update_sessions: BTreeMap::default() };
    let t = any_time();
    let r = idm.exchange(LINK, t);
    match r {
        Ok(tok) => {
            check!(which == 1 || which == 2, "C37: only a valid or in-progress link can be exchanged");
            check!(t < max_ttl, "C37: an expired link can no longer be exchanged");
            match idm.account.credential_update_intent_tokens.get(&LINK) {
                Some(IntentTokenState::InProgress { max_ttl: m, perms: p, session_id, session_ttl }) => {
                    check!(*m == max_ttl && *p == perms, "C37: an exchange keeps the link's expiry and permissions");
                    check!(*session_id == tok.sessionid, "C37: the link is bound to the session just handed out");
                    check!(idm.cred_update_sessions.contains_key(&tok.sessionid), "C37: the session handed out exists");
                }
                _ => check!(false, "C37: after an exchange the link is in progress"),
            }
        }
        Err(_) => {
            check!(which != 1 || t >= max_ttl, "an unexpired valid link can be exchanged");
        }
    }
    kani::cover!(r.is_ok() && which == 2, "in-progress link taken over");
    kani::cover!(r.is_err() && which == 3, "consumed link refused");
    kani::cover!(r.is_err() && which == 1, "expired link refused");
}

/// Reachability twin: must FAIL.
#[kani::proof]
#[kani::unwind(6)]
fn c37_twin_must_fail() {
    let mut idm = fresh(any_time());
    let t = any_time();
    let r = idm.exchange(LINK, t);
    if let Ok(tok) = r {
        let t2 = any_time();
        kani::assume(t2 > t);
        let _ = idm.commit(tok, t2);
    }
    kani::assert(false, "twin: reachable");
}
