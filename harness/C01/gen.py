"""Shape generator for C01: one Kani harness per filter *shape* (the tree of And / Or / Inclusion /
AndNot nodes and the kind of every leaf is concrete; everything else -- which entries exist, what
each leaf really matches, what every index read answers, whether each attribute is indexed,
corrupt, which slope, the threshold -- is symbolic).  DESIGN.md F4 explains why shapes are
enumerated instead of being symbolic."""
import itertools
import os
import random

KINDS = {'E': 'K::Eq', 'P': 'K::Pres', 'L': 'K::Lt', 'S': 'K::Sub', 'W': 'K::Stw', 'N': 'K::Enw', 'X': 'K::Invalid'}


def leaf(k):
    return ('L', k)


def Not(c):
    return ('Not', c)


def And(*cs):
    return ('And', list(cs))


def Or(*cs):
    return ('Or', list(cs))


def Inc(*cs):
    return ('Inc', list(cs))


def name(sh):
    if sh[0] == 'L':
        return sh[1].lower()
    if sh[0] == 'Not':
        return 'n' + name(sh[1])
    return {'And': 'a', 'Or': 'o', 'Inc': 'i'}[sh[0]] + '_' + '_'.join(name(c) for c in sh[1]) + '_z'


def text(sh):
    if sh[0] == 'L':
        return {'E': 'Eq', 'P': 'Pres', 'L': 'LessThan', 'S': 'Cnt', 'W': 'Stw', 'N': 'Enw', 'X': 'Invalid'}[sh[1]]
    if sh[0] == 'Not':
        return 'AndNot(' + text(sh[1]) + ')'
    return {'And': 'And', 'Or': 'Or', 'Inc': 'Inclusion'}[sh[0]] + '[' + ', '.join(text(c) for c in sh[1]) + ']'


def depth(sh):
    if sh[0] == 'L':
        return 1
    if sh[0] == 'Not':
        return 1 + depth(sh[1])
    return 1 + max(depth(c) for c in sh[1])


class Ctx:
    def __init__(self):
        self.leaves = []  # kinds in order


def build2(sh, ctx):
    """Like build but Not nodes also return (inner doc expr, inner iso) as fields 5, 6."""
    if sh[0] == 'L':
        i = len(ctx.leaves)
        ctx.leaves.append(sh[1])
        return [f'leaf({i}, {KINDS[sh[1]]})', f't{i}', f't{i}', False, False, None, None]
    if sh[0] == 'Not':
        e, tb, td, iso, inc, _, _ = build2(sh[1], ctx)
        return [f'FilterResolved::AndNot(Box::new({e}), None)', f'(u & !({tb}))', '0u8', True, inc, td, iso]
    kids = [(c, build2(c, ctx)) for c in sh[1]]
    exprs = ', '.join(k[1][0] for k in kids)
    inc = any(k[1][4] for k in kids) or sh[0] == 'Inc'
    ctor = {'And': 'And', 'Or': 'Or', 'Inc': 'Inclusion'}[sh[0]]
    e = f'FilterResolved::{ctor}(vec![{exprs}], None)'
    if sh[0] in ('Or', 'Inc'):
        tb = '(' + ' | '.join(k[1][1] for k in kids) + ')'
        td = '(' + ' | '.join(k[1][2] for k in kids) + ')'
        iso = any(k[1][3] for k in kids)
        return [e, tb, td, iso, inc, None, None]
    tb = '(u & ' + ' & '.join(k[1][1] for k in kids) + ')'
    pos = [k for k in kids if k[0][0] != 'Not']
    nots = [k for k in kids if k[0][0] == 'Not']
    if not pos:
        return [e, tb, '0u8', True, inc, None, None]
    td = '(' + ' & '.join(k[1][2] for k in pos)
    iso = any(k[1][3] for k in pos)
    for c, k in nots:
        td += ' & !(' + k[5] + ')'
        iso = iso or k[6]
    td += ')'
    return [e, tb, td, iso, inc, None, None]


def harness(sh):
    ctx = Ctx()
    e, tb, td, iso, inc, _, _ = build2(sh, ctx)
    n = len(ctx.leaves)
    assert n <= 4, sh
    nm = 'c01_' + name(sh)
    # recursion depth of filter2idl on this shape; CBMC cannot see the variant of a boxed /
    # vec-held term as a constant, so it explores every arm of the recursive match down to the
    # unwind bound: keep the bound just above what the shape needs (loops run over <= 3 items)
    unw = max(depth(sh) + 2, 5)
    lines = [f'/// shape: {text(sh)}', '#[kani::proof]', f'#[kani::unwind({unw})]', f'fn {nm}() {{',
             '    arena_reset();', '    let u = sym_universe();']
    for i, k in enumerate(ctx.leaves):
        lines.append(f'    let t{i} = sym_leaf({i}, {KINDS[k]}, u);')
    lines.append(f'    let f = {e};')
    lines.append('    let thres = sym_thres();')
    lines.append('    let mut be = Be { idl: IdlLayer };')
    lines.append('    let r = be.filter2idl(&f, thres);')
    lines.append('    let (idl, _plan) = match r { Ok(x) => x, Err(_) => { kani::assert(false, "C01: filter2idl must not fail on a well-formed filter"); return; } };')
    lines.append('    let o = out_of(&idl);')
    lines.append('    kani::cover!(true, "filter2idl returned a candidate set");')
    covers = 1
    if inc:
        # Inclusion is internal-only and means `false` on a single entry: only demand that a
        # fully indexed answer stays inside the union of what the terms match
        lines.append(f'    let t_any: u8 = {tb};')
        lines.append('    if let Out::Indexed(s) | Out::Partial(s) | Out::Thresh(s) = o { kani::assert(s & !u == 0, "C01: candidate ids are live ids"); kani::assert(s & !t_any == 0, "C01: an inclusion candidate set stays inside what its terms match"); }')
    else:
        lines.append(f'    let t_bool: u8 = {tb};')
        if iso:
            lines.append(f'    let t_doc: u8 = {td};')
            lines.append('    kani::assert(sound(&o, t_doc, u), "C01[documented NOT]: candidate set is sound when an isolated NOT is read as the empty set");')
        lines.append('    kani::assert(sound(&o, t_bool, u), "C01: candidate set is sound under boolean semantics (NOT = complement of the live entries)");')
    lines.append('}')
    role = None
    if iso and not inc:
        role = 'isolated-not'
    return nm, '\n'.join(lines), {'name': nm, 'shape': text(sh), 'covers': covers, 'role': role,
                                    'bounds': 'universe of 6 entry ids (symbolic live subset); per leaf: symbolic truth set, index answers under the leaf contract, indexed/unindexed/corrupt, slope; threshold 0..=4'}


PRELUDE = '''// GENERATED by harness/C01/gen.py on every run -- do not edit.
use super::*;
use super::harness_support::*;

/// Soundness of a candidate set against the set `t` of entries that satisfy the filter:
/// Indexed must be exact (search returns it untested); Partial / PartialThreshold must be a
/// superset (search re-tests every candidate); AllIds is always sound (full scan + test).
fn sound(o: &Out, t: u8, u: u8) -> bool {
    match o {
        Out::All => true,
        Out::Partial(s) | Out::Thresh(s) => (*s & t == t) && (*s & !u == 0),
        Out::Indexed(s) => *s == t,
    }
}

/// Reachability twin: must FAIL.
#[kani::proof]
#[kani::unwind(8)]
fn c01_twin_must_fail() {
    arena_reset();
    let u = sym_universe();
    let t0 = sym_leaf(0, K::Eq, u);
    let t1 = sym_leaf(1, K::Lt, u);
    let f = FilterResolved::And(vec![leaf(0, K::Eq), leaf(1, K::Lt)], None);
    let mut be = Be { idl: IdlLayer };
    let r = be.filter2idl(&f, sym_thres());
    kani::assert(r.is_ok(), "reach");
    kani::assert(false, "twin: reachable");
}
'''


def shapes(tier, seed):
    E, P, L, S, X = (leaf(k) for k in 'EPLSX')
    c1 = [E, P, L, S, X, Not(E), Not(L)]
    cq = [E, L, Not(E), Not(L)]
    out = []
    out += c1 + [Not(S), Not(P), leaf('W'), leaf('N')]
    for op in (And, Or):
        for a, b in itertools.product(cq, cq):
            out.append(op(a, b))
    out += [And(E, S), Or(E, S), And(S, Not(S)), And(E, Not(S)), And(E, P), Or(P, X), And(E, X),
            Inc(E, E), Inc(E, L), And(E, E, Not(E)), Or(E, L, Not(E)), And(E, Or(E, L)), Or(E, And(E, Not(E))),
            And(E, Not(Or(E, L))), And(L, Not(And(E, E)))]
    full = []
    for op in (And, Or, Inc):
        for a, b in itertools.product(c1, c1):
            full.append(op(a, b))
    c3 = [E, L, Not(E)]
    c2 = [op(a, b) for op in (And, Or) for a, b in itertools.product(c3, c3)]
    for op in (And, Or):
        for c in c3:
            for d in c2:
                full.append(op(c, d))
                full.append(op(d, c))
                full.append(op(c, Not(d))) if op is And else None
        for a, b, c in itertools.product(c3, c3, c3):
            full.append(op(a, b, c))
    seen = {name(s) for s in out}
    rest = [s for s in full if name(s) not in seen and not (seen.add(name(s)))]
    if tier == 'thorough':
        out += rest
    else:
        rnd = random.Random(seed)
        out += rnd.sample(rest, min(12, len(rest)))
    # dedupe by name
    uniq, names = [], set()
    for s in out:
        n = name(s)
        if n not in names:
            names.add(n)
            uniq.append(s)
    return uniq


def generate(srcdir, tier, seed):
    hs = []
    body = [PRELUDE]
    for sh in shapes(tier, seed):
        nm, code, meta = harness(sh)
        body.append(code)
        hs.append(meta)
    with open(os.path.join(srcdir, 'harness.rs'), 'w') as f:
        f.write('\n\n'.join(body) + '\n')
    hs.append({'name': 'c01_twin_must_fail', 'expect': 'fail', 'bounds': 'reachability twin'})
    return hs


if __name__ == '__main__':
    import sys
    for t in ('quick', 'thorough'):
        print(t, len(shapes(t, 0)))
