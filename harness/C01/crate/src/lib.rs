//! K-slice crate for C01 (and the shared filter model for C02).  Generated on every run from
//! /repo, text unchanged:
//!   filter_slice.rs  filter.rs :: enum FilterResolved, impl PartialEq for FilterResolved,
//!                    FilterResolved::is_andnot
//!   be_slice.rs      be/mod.rs :: enum IdList, consts FILTER_*, and inside a trait shell the
//!                    bodies of BackendTransaction::{filter2idl, filter2idl_sub}
//! Models (everything else): the id-list set type as a bitmask over a universe of 6 entry ids,
//! the index layer as a table the harness fills with symbolic answers, Attribute/PartialValue as
//! opaque ids, empty logging macros.
#![allow(dead_code, unused_imports, unused_variables, unused_macros, static_mut_refs, unused_mut)]

use std::num::NonZeroU8;

macro_rules! trace { ($($t:tt)*) => { () }; }
macro_rules! debug { ($($t:tt)*) => { () }; }
macro_rules! error { ($($t:tt)*) => { () }; }
macro_rules! filter_trace { ($($t:tt)*) => { () }; }
macro_rules! filter_warn { ($($t:tt)*) => { () }; }
macro_rules! filter_error { ($($t:tt)*) => { () }; }
macro_rules! admin_error { ($($t:tt)*) => { () }; }

pub const N_IDS: u32 = 6;
pub const U_ALL: u8 = (1u8 << N_IDS) - 1;

/// Model of idlset::v2::IDLBitRange: a set of entry ids as a bitmask.  Contract used by the
/// sliced code: new (empty), | union, & intersection, andnot difference, is_empty, len,
/// below_threshold(t) == len < t, clone.
#[derive(Clone, Copy, Debug, PartialEq, Eq)]
pub struct IDLBitRange(pub u8);
impl IDLBitRange {
    pub fn new() -> Self { IDLBitRange(0) }
    pub fn is_empty(&self) -> bool { self.0 == 0 }
    pub fn len(&self) -> usize { self.0.count_ones() as usize }
    pub fn below_threshold(&self, threshold: usize) -> bool { self.len() < threshold }
    pub fn andnot(self, rhs: IDLBitRange) -> IDLBitRange { IDLBitRange(self.0 & !rhs.0) }
}
impl std::ops::BitOr for IDLBitRange {
    type Output = IDLBitRange;
    fn bitor(self, r: IDLBitRange) -> IDLBitRange { IDLBitRange(self.0 | r.0) }
}
impl std::ops::BitAnd for IDLBitRange {
    type Output = IDLBitRange;
    fn bitand(self, r: IDLBitRange) -> IDLBitRange { IDLBitRange(self.0 & r.0) }
}

/// Model of an index key (shadows std String inside the sliced text): opaque.
#[derive(Clone, Copy, Debug, PartialEq, Eq)]
pub struct String(pub u8);

/// An attribute is identified with the leaf term that uses it (each leaf has its own index
/// answers), so an opaque id is enough.
#[derive(Clone, Copy, Debug, PartialEq, Eq, PartialOrd, Ord)]
pub struct Attribute(pub u8);
impl core::fmt::Display for Attribute {
    fn fmt(&self, _f: &mut core::fmt::Formatter<'_>) -> core::fmt::Result { Ok(()) }
}

#[derive(Clone, Copy, Debug, PartialEq, Eq, PartialOrd, Ord)]
pub struct PartialValue(pub u8);
impl PartialValue {
    pub fn get_idx_eq_key(&self) -> String { String(self.0) }
    pub fn get_idx_sub_key(&self) -> Option<String> {
        let l = unsafe { &LEAVES[(self.0 as usize) % MAX_LEAVES] };
        if l.has_subkey { Some(String(self.0)) } else { None }
    }
}

#[derive(Clone, Copy, Debug, PartialEq, Eq)]
pub enum IndexType { Equality, Presence, SubString }

#[derive(Clone, Copy, Debug, PartialEq, Eq)]
pub enum OperationError { InvalidState, ResourceLimit, Backend }

// ---- the symbolic index layer ----------------------------------------------------------------
pub const MAX_LEAVES: usize = 4;

/// What the database holds for one leaf term (filled by the harness with symbolic values under
/// the leaf contract, see harness_support.rs).
#[derive(Clone, Copy)]
pub struct Leaf {
    /// entries (bitmask) that really satisfy the term
    pub t: u8,
    /// the index table of this attribute is missing (get_idl answers None)
    pub corrupt: bool,
    /// answers of successive index reads for this attribute (k-th read -> s[k])
    pub s: [u8; 3],
    /// number of grapheme keys of a substring value (>= 1)
    pub sub_n: u8,
    pub has_subkey: bool,
    pub reads: u8,
}
pub static mut LEAVES: [Leaf; MAX_LEAVES] =
    [Leaf { t: 0, corrupt: false, s: [0; 3], sub_n: 1, has_subkey: true, reads: 0 }; MAX_LEAVES];

pub struct IdlLayer;
impl IdlLayer {
    pub fn get_idl<K>(&mut self, attr: &Attribute, _itype: IndexType, _key: K) -> Result<Option<IDLBitRange>, OperationError> {
        let l = unsafe { &mut LEAVES[(attr.0 as usize) % MAX_LEAVES] };
        if l.corrupt {
            return Ok(None);
        }
        let k = (l.reads as usize).min(2);
        l.reads += 1;
        Ok(Some(IDLBitRange(l.s[k])))
    }
}

pub struct TrigraphIter { left: u8 }
impl Iterator for TrigraphIter {
    type Item = u8;
    fn next(&mut self) -> Option<u8> {
        if self.left == 0 { None } else { self.left -= 1; Some(self.left) }
    }
}
/// Model of utils::trigraph_iter: yields `sub_n` opaque keys for the leaf whose value this is.
pub fn trigraph_iter(v: &String) -> TrigraphIter {
    let l = unsafe { &LEAVES[(v.0 as usize) % MAX_LEAVES] };
    TrigraphIter { left: l.sub_n }
}


/// Model of filter::FilterPlan, the diagnostic log of how a query was executed: a zero-sized
/// value with constructors named like the real variants.  (The real recursive enum's drop glue
/// makes CBMC unwind without end, and the plan is not part of the property.)
#[derive(Clone, Copy, Debug)]
pub struct FilterPlan;
#[allow(non_snake_case, non_upper_case_globals)]
impl FilterPlan {
    pub const Invalid: FilterPlan = FilterPlan;
    pub fn OrUnindexed(_p: Vec<FilterPlan>) -> FilterPlan { FilterPlan }
    pub fn OrIndexed(_p: Vec<FilterPlan>) -> FilterPlan { FilterPlan }
    pub fn OrPartial(_p: Vec<FilterPlan>) -> FilterPlan { FilterPlan }
    pub fn OrPartialThreshold(_p: Vec<FilterPlan>) -> FilterPlan { FilterPlan }
    pub fn AndEmptyCand(_p: Vec<FilterPlan>) -> FilterPlan { FilterPlan }
    pub fn AndIndexed(_p: Vec<FilterPlan>) -> FilterPlan { FilterPlan }
    pub fn AndUnindexed(_p: Vec<FilterPlan>) -> FilterPlan { FilterPlan }
    pub fn AndPartial(_p: Vec<FilterPlan>) -> FilterPlan { FilterPlan }
    pub fn AndPartialThreshold(_p: Vec<FilterPlan>) -> FilterPlan { FilterPlan }
    pub fn InclusionInvalid(_p: Vec<FilterPlan>) -> FilterPlan { FilterPlan }
    pub fn InclusionIndexed(_p: Vec<FilterPlan>) -> FilterPlan { FilterPlan }
    pub fn EqUnindexed(_a: Attribute) -> FilterPlan { FilterPlan }
    pub fn EqCorrupt(_a: Attribute) -> FilterPlan { FilterPlan }
    pub fn SubUnindexed(_a: Attribute) -> FilterPlan { FilterPlan }
    pub fn SubCorrupt(_a: Attribute) -> FilterPlan { FilterPlan }
    pub fn PresIndexed(_a: Attribute) -> FilterPlan { FilterPlan }
    pub fn PresUnindexed(_a: Attribute) -> FilterPlan { FilterPlan }
    pub fn PresCorrupt(_a: Attribute) -> FilterPlan { FilterPlan }
    pub fn LessThanUnindexed(_a: Attribute) -> FilterPlan { FilterPlan }
    pub fn LessThanIndexed(_a: Attribute) -> FilterPlan { FilterPlan }
    pub fn LessThanCorrupt(_a: Attribute) -> FilterPlan { FilterPlan }
    pub fn EqIndexed(_a: Attribute, _k: String) -> FilterPlan { FilterPlan }
    pub fn SubIndexed(_a: Attribute, _k: String) -> FilterPlan { FilterPlan }
    pub fn AndNot(_p: Box<FilterPlan>) -> FilterPlan { FilterPlan }
}

include!("filter_slice.rs");
include!("be_slice.rs");

/// Induction hypothesis for child `i` (an abstract subterm, represented by the placeholder
/// `FilterResolved::Invalid(Attribute(i))`): what its evaluation returned.
#[derive(Clone, Copy)]
pub struct ChildResult {
    /// 0 AllIds, 1 Partial, 2 PartialThreshold, 3 Indexed
    pub kind: u8,
    pub set: u8,
}
pub static mut ORACLE: [ChildResult; MAX_LEAVES] = [ChildResult { kind: 0, set: 0 }; MAX_LEAVES];
pub static mut ORACLE_CALLS: u8 = 0;

pub struct Be { pub idl: IdlLayer }
impl BackendTransaction for Be {
    fn get_idlayer(&mut self) -> &mut IdlLayer { &mut self.idl }
    fn filter2idl(&mut self, filt: &FilterResolved, _thres: usize) -> Result<(IdList, FilterPlan), OperationError> {
        let i = match filt {
            FilterResolved::Invalid(a) => (a.0 as usize) % MAX_LEAVES,
            _ => {
                #[cfg(kani)]
                kani::assert(false, "harness: abstract children are placeholders");
                0
            }
        };
        let c = unsafe { ORACLE_CALLS += 1; ORACLE[i] };
        let s = IDLBitRange(c.set);
        Ok((match c.kind {
            0 => IdList::AllIds,
            1 => IdList::Partial(s),
            2 => IdList::PartialThreshold(s),
            _ => IdList::Indexed(s),
        }, FilterPlan::Invalid))
    }
}

#[cfg(kani)]
mod harness_support;
#[cfg(kani)]
mod harness;
