use super::*;

/// kinds of leaf terms
#[derive(Clone, Copy, PartialEq, Eq)]
pub enum K { Eq, Pres, Lt, Sub, Stw, Enw, Invalid }

/// Fill LEAVES[i] with symbolic database content for a leaf of kind `k` under the leaf contract
/// (this is the assumption "the indexes agree with the entries", property C03):
///   equality / presence index : the index answer is exactly the set of satisfying entries
///   ordering  (uses presence) : the answer is a superset of the satisfying entries
///   substring (per grapheme)  : every answer is a superset of the satisfying entries
///   everything is a subset of the live ids `u`
pub fn sym_leaf(i: usize, k: K, u: u8) -> u8 {
    let t: u8 = kani::any();
    kani::assume(t & !u == 0);
    let s: [u8; 3] = kani::any();
    let corrupt: bool = kani::any();
    let has_subkey: bool = kani::any();
    let sub_n: u8 = kani::any();
    kani::assume(sub_n >= 1 && sub_n <= 2);
    match k {
        K::Eq | K::Pres => kani::assume(s[0] == t),
        K::Lt | K::Sub | K::Stw | K::Enw => kani::assume(s[0] & t == t && s[1] & t == t && s[2] & t == t),
        K::Invalid => kani::assume(t == 0),
    }
    kani::assume((s[0] | s[1] | s[2]) & !u == 0);
    unsafe {
        LEAVES[i] = Leaf { t, corrupt, s, sub_n, has_subkey, reads: 0 };
    }
    t
}

/// symbolic "is this attribute indexed according to the schema" + slope
pub fn sym_idx() -> Option<NonZeroU8> {
    if kani::any() {
        let v: u8 = kani::any();
        NonZeroU8::new(v)
    } else {
        None
    }
}

pub fn leaf(i: usize, k: K) -> FilterResolved {
    let a = Attribute(i as u8);
    let v = PartialValue(i as u8);
    match k {
        K::Eq => FilterResolved::Eq(a, v, sym_idx()),
        K::Pres => FilterResolved::Pres(a, sym_idx()),
        K::Lt => FilterResolved::LessThan(a, v, sym_idx()),
        // the variant must stay concrete (a symbolic variant makes CBMC explore every arm of
        // the recursive match): Cnt / Stw / Enw are separate leaf kinds
        K::Sub => FilterResolved::Cnt(a, v, sym_idx()),
        K::Stw => FilterResolved::Stw(a, v, sym_idx()),
        K::Enw => FilterResolved::Enw(a, v, sym_idx()),
        K::Invalid => FilterResolved::Invalid(a),
    }
}

pub fn sym_universe() -> u8 {
    let u: u8 = kani::any();
    kani::assume(u & !U_ALL == 0);
    u
}

pub fn sym_thres() -> usize {
    let t: usize = kani::any();
    kani::assume(t <= 4);
    t
}

pub enum Out { All, Partial(u8), Thresh(u8), Indexed(u8) }
pub fn out_of(l: &IdList) -> Out {
    match l {
        IdList::AllIds => Out::All,
        IdList::Partial(s) => Out::Partial(s.0),
        IdList::PartialThreshold(s) => Out::Thresh(s.0),
        IdList::Indexed(s) => Out::Indexed(s.0),
    }
}

/// An abstract child term number `i`: arbitrary truth set (inside the live ids) and an arbitrary
/// evaluation result that is sound for it -- the induction hypothesis.  Returns the truth set.
pub fn sym_child(i: usize, u: u8) -> u8 {
    let t: u8 = kani::any();
    kani::assume(t & !u == 0);
    let kind: u8 = kani::any();
    kani::assume(kind < 4);
    let set: u8 = kani::any();
    kani::assume(set & !u == 0);
    match kind {
        0 => {}
        1 | 2 => kani::assume(set & t == t),
        _ => kani::assume(set == t),
    }
    unsafe {
        ORACLE[i] = ChildResult { kind, set };
    }
    t
}

pub fn child(i: usize) -> FilterResolved {
    FilterResolved::Invalid(Attribute(i as u8))
}
