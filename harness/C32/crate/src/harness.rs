use super::*;

macro_rules! check {
    ($c:expr, $m:literal) => {
        kani::assert($c, $m)
    };
}

const GRACE_SECS: i64 = 300;

fn any_odt() -> OffsetDateTime {
    // +- 2^40 s around the epoch (~ 34,000 years), any nanosecond
    let secs: i64 = kani::any();
    let nanos: u32 = kani::any();
    kani::assume(secs > -(1i64 << 40) && secs < (1i64 << 40) && nanos < 1_000_000_000);
    OffsetDateTime { secs, nanos }
}
fn now_of(ct: Duration) -> OffsetDateTime {
    OffsetDateTime { secs: ct.as_secs() as i64, nanos: ct.subsec_nanos() }
}
fn plus_grace(t: OffsetDateTime) -> OffsetDateTime {
    OffsetDateTime { secs: t.secs + GRACE_SECS, nanos: t.nanos }
}
fn any_opt_odt() -> Option<OffsetDateTime> {
    if kani::any() {
        Some(any_odt())
    } else {
        None
    }
}
fn any_ct() -> Duration {
    let s: u64 = kani::any();
    let n: u32 = kani::any();
    kani::assume(n < 1_000_000_000 && s < (1 << 40));
    Duration::new(s, n)
}
fn any_cid() -> Cid {
    Cid { ts: Duration::new(kani::any::<u32>() as u64, 0), s_uuid: Uuid(kani::any()) }
}
fn any_state() -> SessionState {
    let k: u8 = kani::any();
    kani::assume(k < 3);
    match k {
        0 => SessionState::RevokedAt(any_cid()),
        1 => SessionState::ExpiresAt(any_odt()),
        _ => SessionState::NeverExpires,
    }
}
fn within(ct: Duration, vf: Option<OffsetDateTime>, ex: Option<OffsetDateTime>) -> bool {
    let now = now_of(ct);
    vf.map(|v| v <= now).unwrap_or(true) && ex.map(|e| now <= e).unwrap_or(true)
}

/// an arbitrary well-formed map with 0..=2 entries over ids 0..3
fn any_map<V: Copy>(mk: impl Fn() -> V) -> BTreeMap<Uuid, V> {
    let len: usize = kani::any();
    kani::assume(len <= 2);
    let (k0, k1): (u8, u8) = (kani::any(), kani::any());
    kani::assume(k0 < 3 && k1 < 3);
    let mut slots: [Option<(Uuid, V)>; MAP_CAP] = [None; MAP_CAP];
    if len >= 1 {
        slots[0] = Some((Uuid(k0), mk()));
    }
    if len >= 2 {
        slots[1] = Some((Uuid(k1), mk()));
    }
    let m = BTreeMap::model_from_raw(len, slots);
    kani::assume(m.model_wf());
    m
}

fn any_entry() -> Entry<EntrySealed, EntryCommitted> {
    entry_with(true, true, true)
}

/// `uat` / `api` / `o2`: whether that session map may be present at all in this harness
fn entry_with(uat: bool, api: bool, o2: bool) -> Entry<EntrySealed, EntryCommitted> {
    Entry {
        valid_from: any_opt_odt(),
        expire: any_opt_odt(),
        uat_sessions: if uat && kani::any() { Some(any_map(|| Session { state: any_state(), issued_at: any_odt() })) } else { None },
        api_sessions: if api && kani::any() { Some(any_map(|| ApiToken { issued_at: any_odt() })) } else { None },
        oauth2_sessions: if o2 && kani::any() {
            Some(any_map(|| Oauth2Session { parent: if kani::any() { Some(Uuid(kani::any::<u8>() % 3)) } else { None }, state: any_state(), issued_at: any_odt() }))
        } else {
            None
        },
        _p: core::marker::PhantomData,
    }
}

// ------------------------------------------------------------------------------------------ C49
/// The shared validity-window check, all four presence combinations, full-width instants.
#[kani::proof]
fn c49_validity_window_kernel() {
    let ct = any_ct();
    let vf = any_opt_odt();
    let ex = any_opt_odt();
    let r = Account::check_within_valid_time(ct, vf.as_ref(), ex.as_ref());
    let now = now_of(ct);
    if let Some(e) = ex {
        if now > e {
            check!(!r, "C49: an account whose expiry has passed is outside its validity window");
        }
    }
    if let Some(v) = vf {
        if now < v {
            check!(!r, "C49: an account whose valid-from time has not arrived is outside its validity window");
        }
    }
    check!(r == within(ct, vf, ex), "C49: inside the window exactly when valid_from <= now <= expire (absent bounds do not constrain)");
    kani::cover!(r && vf.is_some() && ex.is_some(), "inside a two-sided window");
    kani::cover!(!r && ex.map(|e| e.secs == now.secs && e.nanos + 1 == now.nanos).unwrap_or(false), "one nanosecond past expiry");
    kani::cover!(r && ex.map(|e| e == now).unwrap_or(false), "exactly at expiry");
}

/// Every token path consults the window at the CURRENT time: a login token, an API token and an
/// OAuth2 token of an account outside its window are refused whatever the session records say.
#[kani::proof]
#[kani::unwind(5)]
fn c49_tokens_of_account_outside_window_refused() {
    let ct = any_ct();
    let e = any_entry();
    let outside = !within(ct, e.valid_from, e.expire);
    let uat = UserAuthToken { session_id: Uuid(kani::any::<u8>() % 3), issued_at: any_odt(), expiry: any_opt_odt(), uuid: Uuid(kani::any()) };
    let r1 = Account::check_user_auth_token_valid(ct, &uat, &e);
    let apit = ProtoApiToken { account_id: Uuid(0), token_id: Uuid(kani::any::<u8>() % 3), issued_at: any_odt(), expiry: any_opt_odt() };
    let r2 = ServiceAccount::check_api_token_valid(ct, &apit, &e);
    if outside {
        check!(!r1, "C49: a login token of an account outside its validity window is refused");
        check!(!r2, "C49: an API token of an account outside its validity window is refused");
    }
    let mut idm = Idm { qs: Qs { entry: Some(Arc::new(e)) } };
    let iat: i64 = kani::any();
    kani::assume(iat >= 0 && iat < (1 << 40));
    let r3 = idm.check_oauth2_account_uuid_valid(Uuid(0), Uuid(kani::any::<u8>() % 3), if kani::any() { Some(Uuid(kani::any::<u8>() % 3)) } else { None }, iat, ct);
    if outside {
        check!(matches!(r3, Ok(None)), "C49: an OAuth2 token of an account outside its validity window is refused");
    }
    kani::cover!(outside && ct.as_secs() as i64 > iat, "expired after the token was issued");
    kani::cover!(!outside && r1 && r2 && matches!(r3, Ok(Some(_))), "all three accepted inside the window");
    core::mem::forget(idm);
}

// ------------------------------------------------------------------------------------------ C32
/// A login token is accepted exactly when the account is inside its window and the session is
/// recorded, not revoked and consistent with the token -- or not recorded yet and the token is
/// younger than the grace window.  Anonymous tokens have no session record.
#[kani::proof]
#[kani::unwind(5)]
fn c32_login_token_needs_live_session() {
    let ct = any_ct();
    let e = entry_with(true, false, false);
    let uat = UserAuthToken { session_id: Uuid(kani::any::<u8>() % 3), issued_at: any_odt(), expiry: any_opt_odt(), uuid: if kani::any() { UUID_ANONYMOUS } else { Uuid(kani::any::<u8>() % 3) } };
    let r = Account::check_user_auth_token_valid(ct, &uat, &e);
    let inwin = within(ct, e.valid_from, e.expire);
    let rec = e.uat_sessions.as_ref().and_then(|m| m.get(&uat.session_id)).copied();
    let want = inwin
        && (uat.uuid == UUID_ANONYMOUS
            || match rec {
                Some(s) => match (s.state, uat.expiry) {
                    (SessionState::ExpiresAt(x), Some(u)) => x == u,
                    (SessionState::NeverExpires, None) => true,
                    _ => false,
                },
                None => now_of(ct) < plus_grace(uat.issued_at),
            });
    if r {
        check!(inwin, "C32: accepted only inside the account's validity window");
        if uat.uuid != UUID_ANONYMOUS {
            match rec {
                Some(s) => check!(!matches!(s.state, SessionState::RevokedAt(_)), "C32: a token whose recorded session is revoked is never accepted"),
                None => check!(now_of(ct) < plus_grace(uat.issued_at), "C32: without a session record a token is accepted only inside the grace window after issue"),
            }
        }
    }
    check!(r == want, "C32: login token accepted exactly for a live, consistent session (or inside the grace window)");
    kani::cover!(r && rec.is_some(), "accepted with a recorded session");
    kani::cover!(r && rec.is_none() && uat.uuid != UUID_ANONYMOUS, "accepted in the grace window");
    kani::cover!(!r && inwin && matches!(rec.map(|s| s.state), Some(SessionState::RevokedAt(_))) && now_of(ct) < plus_grace(uat.issued_at), "revoked inside the grace window: refused");
}

#[kani::proof]
#[kani::unwind(5)]
fn c32_api_token_needs_session() {
    let ct = any_ct();
    let e = entry_with(false, true, false);
    let apit = ProtoApiToken { account_id: Uuid(0), token_id: Uuid(kani::any::<u8>() % 3), issued_at: any_odt(), expiry: any_opt_odt() };
    let r = ServiceAccount::check_api_token_valid(ct, &apit, &e);
    let inwin = within(ct, e.valid_from, e.expire);
    let present = e.api_sessions.as_ref().map(|m| m.get(&apit.token_id).is_some()).unwrap_or(false);
    check!(r == (inwin && (present || now_of(ct) < plus_grace(apit.issued_at))), "C32: API token accepted exactly when its own session record is present (or inside the grace window) and the account is in its window");
    kani::cover!(r && present, "present");
    kani::cover!(!r && inwin, "refused: no record, grace over");
}

/// OAuth2 tokens: a revoked OAuth2 session or a revoked parent session is never accepted.
#[kani::proof]
#[kani::unwind(5)]
fn c32_oauth2_token_needs_live_sessions() {
    let ct = any_ct();
    let e = any_entry();
    let sid = Uuid(kani::any::<u8>() % 3);
    let parent = if kani::any() { Some(Uuid(kani::any::<u8>() % 3)) } else { None };
    let o2 = e.oauth2_sessions.as_ref().and_then(|m| m.get(&sid)).copied();
    let par = parent.and_then(|p| e.uat_sessions.as_ref().and_then(|m| m.get(&p)).copied());
    let par_api = parent.map(|p| e.api_sessions.as_ref().map(|m| m.get(&p).is_some()).unwrap_or(false)).unwrap_or(false);
    let inwin = within(ct, e.valid_from, e.expire);
    let mut idm = Idm { qs: Qs { entry: Some(Arc::new(e)) } };
    let iat: i64 = kani::any();
    kani::assume(iat >= 0 && iat < (1 << 40));
    let grace = now_of(ct) < OffsetDateTime { secs: iat + GRACE_SECS, nanos: 0 };
    let r = idm.check_oauth2_account_uuid_valid(Uuid(0), sid, parent, iat, ct);
    let ok = matches!(r, Ok(Some(_)));
    if ok {
        check!(inwin, "C32: accepted only inside the account's validity window");
        match o2 {
            Some(s) => {
                check!(!matches!(s.state, SessionState::RevokedAt(_)), "C32: a revoked OAuth2 session is never accepted");
                if parent.is_some() {
                    match par {
                        Some(p) => check!(!matches!(p.state, SessionState::RevokedAt(_)), "C32: an OAuth2 token whose parent login session is revoked is never accepted"),
                        None => check!(par_api || grace, "C32: a missing parent session is tolerated only inside the grace window"),
                    }
                }
            }
            None => check!(grace, "C32: without an OAuth2 session record a token is accepted only inside the grace window"),
        }
    }
    kani::cover!(ok && o2.is_some() && par.is_some(), "accepted with both sessions recorded");
    kani::cover!(!ok && inwin && o2.is_some() && par.map(|p| matches!(p.state, SessionState::RevokedAt(_))).unwrap_or(false), "parent revoked");
    core::mem::forget(idm);
}

/// Reachability twin: must FAIL.
#[kani::proof]
#[kani::unwind(5)]
fn c32_twin_must_fail() {
    let ct = any_ct();
    let e = entry_with(true, false, false);
    let uat = UserAuthToken { session_id: Uuid(1), issued_at: any_odt(), expiry: any_opt_odt(), uuid: Uuid(2) };
    let r = Account::check_user_auth_token_valid(ct, &uat, &e);
    check!(r || !r, "reach");
    kani::assert(false, "twin: reachable");
}
