//! K-slice crate shared by C32 and C49.  Generated on every run from /repo, text unchanged:
//!   slice.rs  constants :: AUTH_TOKEN_GRACE_WINDOW;  repl/cid.rs :: struct Cid;
//!             value.rs :: enum SessionState;
//!             idm/account.rs :: Account::{check_within_valid_time, check_user_auth_token_valid}
//!             idm/serviceaccount.rs :: ServiceAccount::check_api_token_valid
//!             idm/server.rs :: IdmServerTransaction::check_oauth2_account_uuid_valid
//! Models: the account entry reduced to the five attributes these functions read; session maps
//! as sorted arrays; OffsetDateTime as (seconds, nanoseconds) since the epoch (exact for + and <=);
//! Uuid opaque; the query server as "returns this entry"; empty logging macros.
#![allow(dead_code, unused_imports, unused_variables, unused_macros)]

use noop_derive::{Deserialize, Serialize};
use std::sync::Arc;
use std::time::Duration;

macro_rules! trace { ($($t:tt)*) => { () }; }
macro_rules! debug { ($($t:tt)*) => { () }; }
macro_rules! error { ($($t:tt)*) => { () }; }
macro_rules! admin_error { ($($t:tt)*) => { () }; }
macro_rules! security_info { ($($t:tt)*) => { () }; }
macro_rules! security_debug { ($($t:tt)*) => { () }; }

pub const MAP_CAP: usize = 2;
include!("/verif/models/shim/btreemap.rs");

#[derive(Clone, Copy, Debug, PartialEq, Eq, PartialOrd, Ord, Hash)]
pub struct Uuid(pub u8);
pub const UUID_ANONYMOUS: Uuid = Uuid(255);

/// time::OffsetDateTime: an instant as (whole seconds since the Unix epoch, nanoseconds within
/// the second); `+ Duration` and comparisons are exact, no multiplication involved.
#[derive(Clone, Copy, Debug, PartialEq, Eq, PartialOrd, Ord)]
pub struct OffsetDateTime {
    pub secs: i64,
    pub nanos: u32,
}
impl OffsetDateTime {
    pub const UNIX_EPOCH: OffsetDateTime = OffsetDateTime { secs: 0, nanos: 0 };
    // the accessors of time::OffsetDateTime that code working with instants commonly uses
    pub fn unix_timestamp(&self) -> i64 {
        self.secs
    }
    pub fn nanosecond(&self) -> u32 {
        self.nanos
    }
    pub fn from_unix_timestamp(secs: i64) -> Result<OffsetDateTime, ()> {
        Ok(OffsetDateTime { secs, nanos: 0 })
    }
}
impl core::ops::Add<Duration> for OffsetDateTime {
    type Output = OffsetDateTime;
    fn add(self, d: Duration) -> OffsetDateTime {
        let mut secs = self.secs + d.as_secs() as i64;
        let mut nanos = self.nanos + d.subsec_nanos();
        if nanos >= 1_000_000_000 {
            nanos -= 1_000_000_000;
            secs += 1;
        }
        OffsetDateTime { secs, nanos }
    }
}
impl core::fmt::Display for OffsetDateTime {
    fn fmt(&self, _f: &mut core::fmt::Formatter<'_>) -> core::fmt::Result {
        Ok(())
    }
}
pub mod time {
    pub use super::OffsetDateTime;
}

#[derive(Clone, Copy, Debug, PartialEq, Eq)]
pub enum Attribute {
    AccountValidFrom,
    AccountExpire,
    UserAuthTokenSession,
    ApiTokenSession,
    OAuth2Session,
}
#[derive(Clone, Copy, Debug, PartialEq, Eq)]
pub enum OperationError {
    NoMatchingEntries,
    NotAuthenticated,
}

include!("slice_types.rs");
impl Copy for Cid {}
impl Copy for SessionState {}
impl core::fmt::Debug for Cid {
    fn fmt(&self, _f: &mut core::fmt::Formatter<'_>) -> core::fmt::Result {
        Ok(())
    }
}

#[derive(Clone, Copy, Debug)]
pub struct Session {
    pub state: SessionState,
    pub issued_at: OffsetDateTime,
}
#[derive(Clone, Copy, Debug)]
pub struct Oauth2Session {
    pub parent: Option<Uuid>,
    pub state: SessionState,
    pub issued_at: OffsetDateTime,
}
#[derive(Clone, Copy, Debug)]
pub struct ApiToken {
    pub issued_at: OffsetDateTime,
}

pub struct EntrySealed;
pub struct EntryCommitted;
/// the account entry, reduced to what the token checks read
pub struct Entry<V, S> {
    pub valid_from: Option<OffsetDateTime>,
    pub expire: Option<OffsetDateTime>,
    pub uat_sessions: Option<BTreeMap<Uuid, Session>>,
    pub api_sessions: Option<BTreeMap<Uuid, ApiToken>>,
    pub oauth2_sessions: Option<BTreeMap<Uuid, Oauth2Session>>,
    pub _p: core::marker::PhantomData<(V, S)>,
}
impl<V, S> Entry<V, S> {
    pub fn get_ava_single_datetime(&self, a: Attribute) -> Option<OffsetDateTime> {
        match a {
            Attribute::AccountValidFrom => self.valid_from,
            Attribute::AccountExpire => self.expire,
            _ => None,
        }
    }
    pub fn get_ava_as_session_map(&self, a: Attribute) -> Option<&BTreeMap<Uuid, Session>> {
        match a {
            Attribute::UserAuthTokenSession => self.uat_sessions.as_ref(),
            _ => None,
        }
    }
    pub fn get_ava_as_apitoken_map(&self, a: Attribute) -> Option<&BTreeMap<Uuid, ApiToken>> {
        match a {
            Attribute::ApiTokenSession => self.api_sessions.as_ref(),
            _ => None,
        }
    }
    pub fn get_ava_as_oauth2session_map(&self, a: Attribute) -> Option<&BTreeMap<Uuid, Oauth2Session>> {
        match a {
            Attribute::OAuth2Session => self.oauth2_sessions.as_ref(),
            _ => None,
        }
    }
}

pub struct UserAuthToken {
    pub session_id: Uuid,
    pub issued_at: OffsetDateTime,
    pub expiry: Option<OffsetDateTime>,
    pub uuid: Uuid,
}
impl core::fmt::Display for UserAuthToken {
    fn fmt(&self, _f: &mut core::fmt::Formatter<'_>) -> core::fmt::Result {
        Ok(())
    }
}
pub struct ProtoApiToken {
    pub account_id: Uuid,
    pub token_id: Uuid,
    pub issued_at: OffsetDateTime,
    pub expiry: Option<OffsetDateTime>,
}

pub struct Account;
pub struct ServiceAccount;

/// the query server, as far as check_oauth2_account_uuid_valid needs it
pub struct Qs {
    pub entry: Option<Arc<Entry<EntrySealed, EntryCommitted>>>,
}
impl Qs {
    pub fn internal_search_uuid(&mut self, _u: Uuid) -> Result<Arc<Entry<EntrySealed, EntryCommitted>>, OperationError> {
        match &self.entry {
            Some(e) => Ok(e.clone()),
            None => Err(OperationError::NoMatchingEntries),
        }
    }
}
pub struct Idm {
    pub qs: Qs,
}
impl Idm {
    pub fn get_qs_txn(&mut self) -> &mut Qs {
        &mut self.qs
    }
}

include!("slice_fns.rs");

#[cfg(kani)]
mod harness;
