//! K-slice crate for C07, composition part.  Generated on every run from /repo, text unchanged:
//!   cid_slice.rs   repl/cid.rs   :: struct Cid, Cid::new, Cid::new_lamport
//!   be_slice.rs    be/mod.rs     :: BackendWriteTransaction::{set_db_ts_max, get_db_ts_max}
//!   srv_slice.rs   server/mod.rs :: the statements of QueryServer::new / ::write /
//!                  QueryServerWriteTransaction::commit that seed, bump, persist and publish the
//!                  change-id maximum, each wrapped in a function shell
//! Models: concread CowCell as a value published only by commit() of its write handle; the id
//! layer as one Option<Duration> cell (db_ts_max); Uuid as 16 opaque bytes.
#![allow(dead_code, unused_imports, unused_variables, unused_mut)]

use noop_derive::{Deserialize, Serialize};
use std::time::Duration;

#[derive(Clone, Copy, Debug, PartialEq, Eq, PartialOrd, Ord, Hash)]
pub struct Uuid(pub [u8; 16]);

#[derive(Clone, Copy, Debug, PartialEq, Eq)]
pub enum OperationError {
    Backend,
    InvalidReplChangeId,
}

include!("cid_slice.rs");

// ---- CowCell model: the write handle owns a working copy; commit() publishes it; dropping the
// handle without commit() (an aborted transaction) leaves the published value untouched.
pub struct CowCell<T: Clone> {
    pub published: T,
}
pub struct CowCellWriteTxn<'a, T: Clone> {
    work: T,
    cell: &'a mut CowCell<T>,
}
impl<T: Clone> CowCell<T> {
    pub fn new(t: T) -> Self {
        CowCell { published: t }
    }
    pub fn write(&mut self) -> CowCellWriteTxn<'_, T> {
        CowCellWriteTxn { work: self.published.clone(), cell: self }
    }
}
impl<'a, T: Clone> CowCellWriteTxn<'a, T> {
    pub fn commit(self) {
        self.cell.published = self.work;
    }
}
impl<'a, T: Clone> core::ops::Deref for CowCellWriteTxn<'a, T> {
    type Target = T;
    fn deref(&self) -> &T {
        &self.work
    }
}
impl<'a, T: Clone> core::ops::DerefMut for CowCellWriteTxn<'a, T> {
    fn deref_mut(&mut self) -> &mut T {
        &mut self.work
    }
}

// ---- id layer model: db_ts_max is one optional value; a write may fail (symbolic)
pub struct IdLayer {
    pub db_ts_max: Option<Duration>,
    pub fail_next_write: bool,
}
impl IdLayer {
    pub fn get_db_ts_max(&self) -> Result<Option<Duration>, OperationError> {
        Ok(self.db_ts_max)
    }
    pub fn set_db_ts_max(&mut self, ts: Duration) -> Result<(), OperationError> {
        if self.fail_next_write {
            return Err(OperationError::Backend);
        }
        self.db_ts_max = Some(ts);
        Ok(())
    }
}
pub struct BackendWriteTransaction {
    pub idl: IdLayer,
}
impl BackendWriteTransaction {
    fn get_idlayer(&mut self) -> &mut IdLayer {
        &mut self.idl
    }
}

include!("be_slice.rs");
include!("srv_slice.rs");

#[cfg(kani)]
mod harness;
