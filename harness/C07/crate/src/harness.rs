use super::*;

macro_rules! check {
    ($c:expr, $m:literal) => {
        kani::assert($c, $m)
    };
}

fn any_duration() -> Duration {
    let s: u64 = kani::any();
    let n: u32 = kani::any();
    kani::assume(n < 1_000_000_000);
    kani::assume(s < u64::MAX - 16);
    Duration::new(s, n)
}

struct Srv {
    s_uuid: Uuid,
    cell: CowCell<Cid>,
    be: BackendWriteTransaction,
    /// ghost: greatest ts committed so far
    committed_max: Option<Duration>,
}

/// QueryServer::new, as far as change ids go (sliced statements)
fn start(s_uuid: Uuid, db_ts_max: Option<Duration>, committed_max: Option<Duration>, now: Duration) -> Srv {
    let mut be = BackendWriteTransaction { idl: IdLayer { db_ts_max, fail_next_write: false } };
    let ts_max = match qs_new_read_ts_max(&mut be, now) {
        Ok(t) => t,
        Err(_) => unreachable!(),
    };
    let cid = qs_new_seed_cid(s_uuid, now, ts_max);
    Srv { s_uuid, cell: CowCell::new(cid), be, committed_max }
}

fn inv(s: &Srv) -> bool {
    s.be.idl.db_ts_max == s.committed_max
        && match s.committed_max {
            Some(m) => s.cell.published.ts >= m,
            None => true,
        }
        && s.cell.published.s_uuid == s.s_uuid
}

/// one write transaction: begin (sliced), then commit (sliced) or abort (drop the handle)
fn write_txn(s: &mut Srv, now: Duration, commit: bool, db_fails: bool) -> Option<Cid> {
    let Srv { cell, be, committed_max, .. } = s;
    let cid = qs_write_begin(cell, now);
    let stamped: Cid = (*cid).clone();
    if commit {
        be.idl.fail_next_write = db_fails;
        let r = qs_commit(be, cid, now);
        be.idl.fail_next_write = false;
        if r.is_ok() {
            if let Some(m) = *committed_max {
                check!(stamped.ts > m, "C07: a committed change id exceeds every change id this server committed before");
            }
            *committed_max = Some(stamped.ts);
            return Some(stamped);
        }
        None
    } else {
        drop(cid);
        None
    }
}

/// Inductive step over the real composition: from ANY state satisfying the invariant, one event
/// {commit, commit whose DB write fails, abort, restart} at an ARBITRARY clock value keeps the
/// invariant and every successful commit is stamped above all earlier ones.
#[kani::proof]
fn c07_compose_step_inductive() {
    let s_uuid = Uuid(kani::any());
    let has: bool = kani::any();
    let m = any_duration();
    let committed = if has { Some(m) } else { None };
    let cell_ts = any_duration();
    let mut s = Srv {
        s_uuid,
        cell: CowCell::new(Cid::new(s_uuid, cell_ts)),
        be: BackendWriteTransaction { idl: IdLayer { db_ts_max: committed, fail_next_write: false } },
        committed_max: committed,
    };
    kani::assume(inv(&s));
    let now = any_duration();
    let ev: u8 = kani::any();
    kani::assume(ev < 4);
    match ev {
        0 => {
            let c = write_txn(&mut s, now, true, false);
            check!(c.is_some(), "C07: commit succeeds when the database accepts the write");
        }
        1 => {
            let _ = write_txn(&mut s, now, true, true);
        }
        2 => {
            let _ = write_txn(&mut s, now, false, false);
        }
        _ => {
            s = start(s.s_uuid, s.be.idl.db_ts_max, s.committed_max, now);
        }
    }
    check!(inv(&s), "C07: persisted maximum = greatest committed change id <= in-memory maximum, after every event");
    kani::cover!(ev == 0 && has && now < m, "commit with a regressed clock");
    kani::cover!(ev == 3 && has && now < m, "restart with a regressed clock");
    kani::cover!(ev == 1, "commit whose database write fails");
}

/// Direct witness: clock regression + abandoned transaction + restart, then a further commit.
#[kani::proof]
#[kani::unwind(5)]
fn c07_compose_history_4() {
    let s_uuid = Uuid(kani::any());
    let has: bool = kani::any();
    let m = any_duration();
    let committed = if has { Some(m) } else { None };
    let mut s = start(s_uuid, committed, committed, any_duration());
    let mut last: Option<Cid> = None;
    let mut commits = 0u8;
    let mut restarts = 0u8;
    let mut i = 0;
    while i < 4 {
        let now = any_duration();
        let ev: u8 = kani::any();
        kani::assume(ev < 3);
        if ev == 2 {
            s = start(s.s_uuid, s.be.idl.db_ts_max, s.committed_max, now);
            restarts += 1;
        } else if let Some(c) = write_txn(&mut s, now, ev == 0, false) {
            if let Some(l) = &last {
                check!(c > *l, "C07: committed change ids strictly increase across aborts, clock regressions and restarts");
            }
            last = Some(c);
            commits += 1;
        }
        i += 1;
    }
    kani::cover!(commits == 3 && restarts == 1, "three commits around a restart");
    kani::cover!(commits == 4, "four commits");
}

/// Reachability twin: must FAIL.
#[kani::proof]
fn c07_compose_twin_must_fail() {
    let s_uuid = Uuid(kani::any());
    let mut s = start(s_uuid, None, None, any_duration());
    let c = write_txn(&mut s, any_duration(), true, false);
    check!(c.is_some(), "reach");
    kani::assert(false, "twin: reachable");
}
