// Kani harnesses for C07, injected as a child module of server/lib/src/repl/cid.rs.
// Everything here runs the real `Cid::new_lamport` / derived `Ord` of the real crate.
use super::Cid;
use std::cmp::Ordering;
use std::time::Duration;
use uuid::Uuid;

macro_rules! check {
    ($c:expr, $m:literal) => {
        kani::assert($c, $m)
    };
}

fn any_duration() -> Duration {
    let s: u64 = kani::any();
    let n: u32 = kani::any();
    kani::assume(n < 1_000_000_000);
    Duration::new(s, n)
}

fn any_uuid() -> Uuid {
    let b: [u8; 16] = kani::any();
    Uuid::from_bytes(b)
}

/// Kernel: the stamped identifier is strictly above the previous maximum and never behind the
/// transaction's clock, for every clock value (repeats and regressions included).
#[kani::proof]
fn c07_lamport_gt_max() {
    let s = any_uuid();
    let ts = any_duration();
    let max = any_duration();
    kani::assume(max < Duration::MAX);
    let c = Cid::new_lamport(s, ts, &max);
    check!(c.ts > max, "C07: new cid must be strictly greater than the previous maximum");
    check!(c.ts >= ts, "C07: new cid must not be behind the transaction clock");
    check!(c.s_uuid == s, "C07: server uuid preserved");
    check!(c > Cid::new(s, max), "C07: Ord on Cid agrees");
    // minimality: one nanosecond above max unless the clock is already ahead
    check!(ts > max || c.ts == max + Duration::from_nanos(1), "C07: lamport step is +1ns");
    kani::cover!(ts > max, "clock ahead");
    kani::cover!(ts < max, "clock regressed");
    kani::cover!(ts == max, "clock repeated");
}

/// `Ord for Cid` is the lexicographic order on (ts, s_uuid): a strict total order.
#[kani::proof]
fn c07_cid_order_total() {
    let a = Cid::new(any_uuid(), any_duration());
    let b = Cid::new(any_uuid(), any_duration());
    let c = Cid::new(any_uuid(), any_duration());
    let ab = a.cmp(&b);
    let ba = b.cmp(&a);
    // agrees with the (ts, uuid-bytes) lexicographic order
    let spec_ab = match a.ts.cmp(&b.ts) {
        Ordering::Equal => a.s_uuid.as_bytes().cmp(b.s_uuid.as_bytes()),
        o => o,
    };
    check!(ab == spec_ab, "C07: Cid order is (ts, server uuid) lexicographic");
    check!(ab == ba.reverse(), "C07: antisymmetry");
    check!((ab == Ordering::Equal) == (a == b), "C07: Equal iff ==");
    if ab == Ordering::Less && b.cmp(&c) == Ordering::Less {
        check!(a.cmp(&c) == Ordering::Less, "C07: transitivity");
    }
    check!(a.partial_cmp(&b) == Some(ab), "C07: PartialOrd agrees with Ord");
    kani::cover!(ab == Ordering::Less && a.ts == b.ts, "tie on ts broken by uuid");
    kani::cover!(ab == Ordering::Equal, "equal");
    kani::cover!(ab == Ordering::Greater && a.ts > b.ts, "greater by ts");
}

/// Server state relevant to change identifiers, as composed in server/mod.rs and be/mod.rs
/// (read, not encoded: QueryServer::new seeds `cell` from the persisted maximum; write() bumps a
/// CowCell write handle that is only published by commit; commit persists ts in the same DB txn).
struct Srv {
    s_uuid: Uuid,
    /// cid_max CowCell (published value)
    cell: Duration,
    /// db_ts_max as stored; None on a fresh database
    persisted: Option<Duration>,
    /// ghost: greatest ts of any committed transaction (None: nothing committed yet)
    committed_max: Option<Duration>,
}

impl Srv {
    fn start(s_uuid: Uuid, persisted: Option<Duration>, committed_max: Option<Duration>, now: Duration) -> Srv {
        // be.get_db_ts_max(curtime): persisted or curtime;  Cid::new_lamport(s_uuid, curtime, &ts_max)
        let ts_max = match persisted {
            Some(d) => d,
            None => now,
        };
        let cid = Cid::new_lamport(s_uuid, now, &ts_max);
        Srv { s_uuid, cell: cid.ts, persisted, committed_max }
    }
    fn inv(&self) -> bool {
        // representation invariant: the persisted value is the greatest committed ts, and the
        // in-memory cell is never below it.
        self.persisted == self.committed_max
            && match self.committed_max {
                Some(m) => self.cell >= m,
                None => true,
            }
    }
    /// one write transaction at clock `now`; `commit` chooses commit or abort
    fn write(&mut self, now: Duration, commit: bool) -> Cid {
        let cid = Cid::new_lamport(self.s_uuid, now, &self.cell);
        if commit {
            if let Some(m) = self.committed_max {
                check!(cid.ts > m, "C07: committed cid must exceed every earlier committed cid");
            }
            self.persisted = Some(cid.ts);
            self.cell = cid.ts;
            self.committed_max = Some(cid.ts);
        }
        cid
    }
    fn restart(self, now: Duration) -> Srv {
        Srv::start(self.s_uuid, self.persisted, self.committed_max, now)
    }
}

fn bounded_duration() -> Duration {
    // keep away from Duration::MAX so that +1ns cannot overflow within the bounded history
    let d = any_duration();
    kani::assume(d.as_secs() < u64::MAX - 16);
    d
}

/// Inductive step: from ANY state satisfying the invariant, one event (commit / abort / restart)
/// at an ARBITRARY clock value re-establishes the invariant, and a commit stamps a cid above
/// every earlier committed one.  Covers histories of any length.
#[kani::proof]
fn c07_step_inductive() {
    let s_uuid = any_uuid();
    let cell = bounded_duration();
    let has: bool = kani::any();
    let m = bounded_duration();
    let committed = if has { Some(m) } else { None };
    let mut srv = Srv { s_uuid, cell, persisted: committed, committed_max: committed };
    kani::assume(srv.inv());
    let now = bounded_duration();
    let ev: u8 = kani::any();
    kani::assume(ev < 3);
    match ev {
        0 => {
            let c = srv.write(now, true);
            assert!(c.ts >= now);
        }
        1 => {
            let _ = srv.write(now, false);
        }
        _ => {
            srv = srv.restart(now);
        }
    }
    check!(srv.inv(), "C07: invariant (persisted = greatest committed <= cell) is inductive");
    kani::cover!(ev == 0 && has && now < m, "commit with regressed clock");
    kani::cover!(ev == 2 && has && now < m, "restart with regressed clock");
    kani::cover!(ev == 1, "abort");
}

/// Direct witness: 4 events from a fresh or previously used database, arbitrary clocks.
#[kani::proof]
#[kani::unwind(5)]
fn c07_history_4() {
    let s_uuid = any_uuid();
    let has: bool = kani::any();
    let m = bounded_duration();
    let committed = if has { Some(m) } else { None };
    let mut srv = Srv::start(s_uuid, committed, committed, bounded_duration());
    let mut last: Option<Cid> = None;
    let mut commits = 0u8;
    let mut i = 0;
    while i < 4 {
        let now = bounded_duration();
        let ev: u8 = kani::any();
        kani::assume(ev < 3);
        if ev == 2 {
            srv = srv.restart(now);
        } else {
            let c = srv.write(now, ev == 0);
            if ev == 0 {
                if let Some(l) = &last {
                    check!(c > *l, "C07: strictly increasing committed cids");
                }
                last = Some(c);
                commits += 1;
            }
        }
        i += 1;
    }
    kani::cover!(commits == 4, "four commits");
    kani::cover!(commits == 2, "two commits among aborts/restarts");
}

/// Reachability twin: must FAIL.
#[kani::proof]
fn c07_twin_must_fail() {
    let s = any_uuid();
    let ts = any_duration();
    let max = any_duration();
    kani::assume(max < Duration::MAX);
    let c = Cid::new_lamport(s, ts, &max);
    assert!(c.ts > max);
    kani::assert(false, "twin: reachable");
}
