//! K-slice crate for C20.  Generated on every run from /repo, text unchanged:
//!   slice_consts.rs  constants/uuids.rs :: UUID_DOES_NOT_EXIST, UUID_ANONYMOUS,
//!                    DYNAMIC_RANGE_MINIMUM_UUID (through a const `uuid!` parser)
//!   slice_types.rs   modify.rs :: enum Modify;  server/access/delete.rs :: enum IResult;
//!                    server/access/protected.rs :: static PROTECTED_ENTRY_CLASSES
//!   slice_fns.rs     plugins/base.rs :: Base::{pre_create_transform, pre_modify,
//!                    pre_batch_modify};  server/access/delete.rs :: fn protected_filter_entry
//! Models: entries reduced to class set + uuid values; value sets, filters, events, identities
//! as the fields these functions read; the query server's internal_exists as an arbitrary
//! answer that counts its calls; BTreeSet/BTreeMap sorted arrays; LazyLock as a plain thunk.
#![allow(dead_code, unused_imports, unused_variables, unused_macros, static_mut_refs, non_upper_case_globals)]

use noop_derive::instrument;
use std::iter::once;
use std::sync::Arc;

macro_rules! trace { ($($t:tt)*) => { () }; }
macro_rules! debug { ($($t:tt)*) => { () }; }
macro_rules! error { ($($t:tt)*) => { () }; }
macro_rules! admin_error { ($($t:tt)*) => { () }; }
macro_rules! request_error { ($($t:tt)*) => { () }; }
macro_rules! security_access { ($($t:tt)*) => { () }; }
macro_rules! filter_all { ($e:expr) => { $e }; }

pub const MAP_CAP: usize = 8;
include!("/verif/models/shim/btreemap.rs");
include!("/verif/models/shim/btreeset.rs");
impl<K: Copy + Ord> BTreeSet<K> {
    pub fn into_iter(self) -> impl Iterator<Item = K> {
        let mut v: [Option<K>; MAP_CAP] = [None; MAP_CAP];
        let mut n = 0;
        for k in self.iter() {
            v[n] = Some(*k);
            n += 1;
        }
        v.into_iter().flatten()
    }
}

/// uuid::Uuid as its 128-bit value (only compared and copied here)
#[derive(Clone, Copy, Debug, PartialEq, Eq, PartialOrd, Ord, Hash)]
pub struct Uuid(pub u128);
impl Uuid {
    pub const fn parse_lit(s: &str) -> Uuid {
        let b = s.as_bytes();
        let mut v: u128 = 0;
        let mut i = 0;
        while i < b.len() {
            let c = b[i];
            let d = if c >= b'0' && c <= b'9' {
                (c - b'0') as u128
            } else if c >= b'a' && c <= b'f' {
                (c - b'a' + 10) as u128
            } else if c >= b'A' && c <= b'F' {
                (c - b'A' + 10) as u128
            } else {
                255
            };
            if d != 255 {
                v = (v << 4) | d;
            }
            i += 1;
        }
        Uuid(v)
    }
    /// a freshly generated v4 uuid: some value in the dynamic range (harness-chosen)
    pub fn new_v4() -> Uuid {
        unsafe { FRESH_UUID }
    }
}
pub static mut FRESH_UUID: Uuid = Uuid(1u128 << 100);
macro_rules! uuid {
    ($s:literal) => {
        Uuid::parse_lit($s)
    };
}
include!("slice_consts.rs");

#[derive(Clone, Copy, Debug, PartialEq, Eq, PartialOrd, Ord)]
pub enum Attribute {
    Class,
    Uuid,
    Name,
    Description,
}
impl core::fmt::Display for Attribute {
    fn fmt(&self, _f: &mut core::fmt::Formatter<'_>) -> core::fmt::Result {
        Ok(())
    }
}

/// class names as small ids; `String` in the sliced statics is this id type
#[derive(Clone, Copy, Debug, PartialEq, Eq, PartialOrd, Ord)]
pub struct String(pub u8);
#[derive(Clone, Copy, Debug, PartialEq, Eq)]
pub enum EntryClass {
    Object,
    Builtin,
    System,
    DomainInfo,
    SystemInfo,
    SystemConfig,
    DynGroup,
    SyncObject,
    Tombstone,
    Recycled,
    Person,
    Group,
}
impl From<EntryClass> for String {
    fn from(c: EntryClass) -> String {
        String(c as u8)
    }
}
impl EntryClass {
    pub fn to_value(self) -> Value {
        Value::Class(self)
    }
}
#[derive(Clone, Copy, Debug, PartialEq, Eq)]
pub enum Value {
    Class(EntryClass),
    Uuid(Uuid),
    Other(u8),
}
#[derive(Clone, Copy, Debug, PartialEq, Eq)]
pub enum PartialValue {
    Uuid(Uuid),
    Other(u8),
}
#[derive(Clone, Copy, Debug, PartialEq, Eq)]
pub struct ValueSet(pub u8);

/// std::sync::LazyLock as a thunk evaluated on every access (no synchronisation in a model run)
pub struct LazyLock<T> {
    f: fn() -> T,
}
impl<T> LazyLock<T> {
    pub const fn new(f: fn() -> T) -> Self {
        LazyLock { f }
    }
}
impl<T> core::ops::Deref for LazyLock<T> {
    type Target = T;
    fn deref(&self) -> &T {
        std::boxed::Box::leak(std::boxed::Box::new((self.f)()))
    }
}

pub type PluginMsg = std::string::String;
#[derive(Debug, PartialEq, Eq)]
pub enum PluginError {
    Base(PluginMsg),
}
#[derive(Debug, PartialEq, Eq)]
pub enum OperationError {
    Plugin(PluginError),
    InvalidAttribute(PluginMsg),
    SystemProtectedAttribute,
    Backend,
}

// ---- entries: a class set and the values of the uuid attribute
pub struct EntryInvalid;
pub struct EntryNew;
pub struct EntryCommitted;
pub struct EntrySealed;
#[derive(Clone, Copy)]
pub struct UuidVs {
    pub n: usize,
    pub first: Uuid,
}
impl UuidVs {
    pub fn len(&self) -> usize {
        self.n
    }
}
pub struct Entry<V, S> {
    pub classes: BTreeSet<String>,
    pub has_classes: bool,
    pub uuid_vs: Option<UuidVs>,
    pub _p: core::marker::PhantomData<(V, S)>,
}
pub type EntryInvalidNew = Entry<EntryInvalid, EntryNew>;
pub type EntrySealedCommitted = Entry<EntrySealed, EntryCommitted>;
impl<V, S> Entry<V, S> {
    pub fn add_ava(&mut self, a: Attribute, v: Value) {
        if let (Attribute::Class, Value::Class(c)) = (a, v) {
            self.classes.insert(c.into());
            self.has_classes = true;
        }
    }
    pub fn add_ava_if_not_exist(&mut self, a: Attribute, v: Value) {
        self.add_ava(a, v)
    }
    pub fn get_ava_set(&self, a: Attribute) -> Option<&UuidVs> {
        match a {
            Attribute::Uuid => self.uuid_vs.as_ref(),
            _ => None,
        }
    }
    pub fn set_ava<I: IntoIterator<Item = Value>>(&mut self, a: &Attribute, it: I) {
        if let Attribute::Uuid = a {
            let mut n = 0;
            let mut first = Uuid(0);
            for v in it {
                if let Value::Uuid(u) = v {
                    if n == 0 {
                        first = u;
                    }
                    n += 1;
                }
            }
            self.uuid_vs = Some(UuidVs { n, first });
        }
    }
    pub fn get_ava_single_uuid(&self, a: Attribute) -> Option<Uuid> {
        match (a, &self.uuid_vs) {
            (Attribute::Uuid, Some(vs)) if vs.n == 1 => Some(vs.first),
            _ => None,
        }
    }
    pub fn get_uuid(&self) -> Uuid {
        self.uuid_vs.map(|v| v.first).unwrap_or(Uuid(0))
    }
    pub fn get_ava_as_iutf8(&self, a: Attribute) -> Option<&BTreeSet<String>> {
        match a {
            Attribute::Class if self.has_classes => Some(&self.classes),
            _ => None,
        }
    }
}

// ---- identities and events
#[derive(Clone, Copy, Debug, PartialEq, Eq)]
pub enum InternalRole {
    System,
    Migration,
    AccountRequest,
    MessageQueue,
}
#[derive(Clone, Copy, Debug, PartialEq, Eq)]
pub enum IdentType {
    User(u8),
    Synch(Uuid),
    Internal(InternalRole),
}
pub struct Identity {
    pub origin: IdentType,
}
impl Identity {
    pub fn is_internal(&self) -> bool {
        matches!(self.origin, IdentType::Internal(_))
    }
}
pub struct CreateEvent {
    pub ident: Identity,
}
#[derive(Clone, Copy)]
pub struct ModifyList {
    pub len: usize,
    pub mods: [Modify; 2],
}
impl ModifyList {
    pub fn iter(&self) -> core::slice::Iter<'_, Modify> {
        self.mods[..self.len].iter()
    }
}
pub struct ModifyEvent {
    pub modlist: ModifyList,
}
pub struct BatchModifyEvent {
    pub modset: BTreeMap<Uuid, ModifyList>,
}

/// filter components as far as the plugin builds them: Or of uuid equalities.  The term list is
/// a count (a real recursive Vec<FC> only adds recursive drop glue that CBMC unwinds forever).
#[derive(Debug, Clone, Copy)]
pub struct FcList(pub usize);
impl FromIterator<FC> for FcList {
    fn from_iter<I: IntoIterator<Item = FC>>(it: I) -> Self {
        let mut n = 0;
        for _ in it {
            n += 1;
        }
        FcList(n)
    }
}
#[derive(Debug, Clone, Copy)]
pub enum FC {
    Or(FcList),
    Eq(Attribute, PartialValue),
}
pub struct QueryServerWriteTransaction {
    pub exists_answer: Result<bool, ()>,
    pub exists_calls: u32,
}
impl QueryServerWriteTransaction {
    pub fn internal_exists(&mut self, _f: &FC) -> Result<bool, OperationError> {
        self.exists_calls += 1;
        self.exists_answer.map_err(|_| OperationError::Backend)
    }
}

include!("slice_types.rs");
impl Copy for Modify {}

pub struct Base;
include!("slice_fns.rs");

#[cfg(kani)]
mod harness;
