use super::*;
use ::std::vec::Vec;

macro_rules! check {
    ($c:expr, $m:literal) => {
        kani::assert($c, $m)
    };
}

fn any_attr() -> Attribute {
    let k: u8 = kani::any();
    kani::assume(k < 4);
    match k {
        0 => Attribute::Class,
        1 => Attribute::Uuid,
        2 => Attribute::Name,
        _ => Attribute::Description,
    }
}
fn any_modify() -> Modify {
    let k: u8 = kani::any();
    kani::assume(k < 5);
    let a = any_attr();
    match k {
        0 => Modify::Present(a, Value::Other(kani::any())),
        1 => Modify::Removed(a, PartialValue::Other(kani::any())),
        2 => Modify::Purged(a),
        3 => Modify::Assert(a, PartialValue::Other(kani::any())),
        _ => Modify::Set(a, ValueSet(kani::any())),
    }
}
fn touches_uuid(m: &Modify) -> bool {
    match m {
        Modify::Present(a, _) | Modify::Removed(a, _) | Modify::Purged(a) | Modify::Set(a, _) => *a == Attribute::Uuid,
        Modify::Assert(_, _) => false,
    }
}
fn any_modlist() -> ModifyList {
    let len: usize = kani::any();
    kani::assume(len <= 2);
    ModifyList { len, mods: [any_modify(), any_modify()] }
}
fn blank_entry<V, S>() -> Entry<V, S> {
    Entry { classes: BTreeSet::default(), has_classes: false, uuid_vs: Some(UuidVs { n: 1, first: Uuid(kani::any()) }), _p: core::marker::PhantomData }
}
fn qs() -> QueryServerWriteTransaction {
    let k: u8 = kani::any();
    kani::assume(k < 3);
    QueryServerWriteTransaction { exists_answer: match k { 0 => Ok(false), 1 => Ok(true), _ => Err(()) }, exists_calls: 0 }
}

/// No modification kind may name the uuid attribute (single modify).
#[kani::proof]
#[kani::unwind(10)]
fn c20_modify_never_touches_uuid() {
    let ml = any_modlist();
    let me = ModifyEvent { modlist: ml };
    let mut cand: Vec<Entry<EntryInvalid, EntryCommitted>> = Vec::new();
    cand.push(blank_entry());
    let r = Base::pre_modify(&mut qs(), &[], &mut cand, &me);
    let mut bad = false;
    let mut i = 0;
    while i < 2 {
        if i < ml.len && touches_uuid(&ml.mods[i]) {
            bad = true;
        }
        i += 1;
    }
    if bad {
        check!(r == Err(OperationError::SystemProtectedAttribute), "C20: any present / remove / purge / set of the uuid attribute is refused");
    } else {
        check!(r.is_ok(), "C20: modifications that leave uuid alone pass this plugin");
    }
    kani::cover!(bad && ml.len == 2 && !touches_uuid(&ml.mods[0]), "uuid named by the second modification");
    kani::cover!(!bad && ml.len == 2, "two harmless modifications");
    core::mem::forget(cand);
}

/// ... and batch modify.
#[kani::proof]
#[kani::unwind(10)]
fn c20_batch_modify_never_touches_uuid() {
    let ml1 = any_modlist();
    let ml2 = any_modlist();
    let two: bool = kani::any();
    let mut slots: [Option<(Uuid, ModifyList)>; MAP_CAP] = [None; MAP_CAP];
    slots[0] = Some((Uuid(1), ml1));
    if two {
        slots[1] = Some((Uuid(2), ml2));
    }
    let me = BatchModifyEvent { modset: BTreeMap::model_from_raw(if two { 2 } else { 1 }, slots) };
    let mut cand: Vec<Entry<EntryInvalid, EntryCommitted>> = Vec::new();
    cand.push(blank_entry());
    let r = Base::pre_batch_modify(&mut qs(), &[], &mut cand, &me);
    let mut bad = false;
    let mut i = 0;
    while i < 2 {
        if i < ml1.len && touches_uuid(&ml1.mods[i]) {
            bad = true;
        }
        if two && i < ml2.len && touches_uuid(&ml2.mods[i]) {
            bad = true;
        }
        i += 1;
    }
    check!(bad == (r == Err(OperationError::SystemProtectedAttribute)), "C20: a batch modify is refused exactly when some modification names the uuid attribute");
    check!(bad || r.is_ok(), "C20: harmless batches pass this plugin");
    kani::cover!(bad && two && ml1.len == 0, "uuid named in the second entry's list");
    core::mem::forget(cand);
}

fn any_new_entry() -> (EntryInvalidNew, Option<UuidVs>) {
    let k: u8 = kani::any();
    kani::assume(k < 3);
    let first = Uuid(kani::any());
    let vs = match k {
        0 => None,
        1 => Some(UuidVs { n: 1, first }),
        _ => Some(UuidVs { n: 2, first }),
    };
    (Entry { classes: BTreeSet::default(), has_classes: false, uuid_vs: vs, _p: core::marker::PhantomData }, vs)
}

/// A create by a user never yields an entry in the reserved system uuid range, and is refused
/// before storage is consulted.
#[kani::proof]
#[kani::unwind(10)]
fn c20_create_system_range_protected() {
    create_case(true);
}

/// every-change tier: a single candidate
#[kani::proof]
#[kani::unwind(10)]
fn c20_create_system_range_protected_1() {
    create_case(false);
}

fn create_case(allow_two: bool) {
    let fresh = Uuid(kani::any());
    kani::assume(fresh >= DYNAMIC_RANGE_MINIMUM_UUID);
    unsafe {
        FRESH_UUID = fresh;
    }
    let (e1, v1) = any_new_entry();
    let (e2, v2) = any_new_entry();
    let two: bool = allow_two && kani::any();
    let mut cand: Vec<EntryInvalidNew> = Vec::new();
    cand.push(e1);
    if two {
        cand.push(e2);
    }
    let internal: bool = kani::any();
    let ce = CreateEvent { ident: Identity { origin: if internal { IdentType::Internal(InternalRole::System) } else { IdentType::User(kani::any()) } } };
    let mut q = qs();
    let r = Base::pre_create_transform(&mut q, &mut cand, &ce);
    let in_sys = |v: Option<UuidVs>| matches!(v, Some(UuidVs { n: 1, first }) if first < DYNAMIC_RANGE_MINIMUM_UUID);
    let sys = in_sys(v1) || (two && in_sys(v2));
    if !internal && sys {
        check!(r.is_err(), "C20: a user create with a uuid in the reserved system range is refused");
    }
    if r.is_ok() {
        check!(internal || !sys, "C20: no user-created entry lands in the reserved system range");
        check!(q.exists_calls == 1 && q.exists_answer == Ok(false), "C20: a create succeeds only after storage confirmed no entry has these uuids");
        let u1 = cand[0].get_ava_single_uuid(Attribute::Uuid);
        check!(u1.is_some() && u1 != Some(UUID_DOES_NOT_EXIST), "C20: every created entry has exactly one uuid, never the does-not-exist marker");
        if two {
            check!(cand[1].get_ava_single_uuid(Attribute::Uuid) != u1, "C20: no duplicate uuid inside one create");
        }
        check!(cand[0].classes.contains(&EntryClass::Object.into()), "C20: object class added");
    }
    kani::cover!(r.is_ok() && (two || !allow_two) && internal && sys, "internal create of built-in entries");
    kani::cover!(r.is_err() && !internal && sys && q.exists_calls == 0, "user refused before storage was consulted");
    kani::cover!(r.is_ok() && !internal && v1.is_none(), "uuid generated");
    core::mem::forget(cand);
}

fn any_classes() -> (BTreeSet<String>, u8) {
    // subset of {Person, Group, System, Recycled, SyncObject, DynGroup}
    let bits: u8 = kani::any();
    kani::assume(bits < 64);
    let all = [EntryClass::Person, EntryClass::Group, EntryClass::System, EntryClass::Recycled, EntryClass::SyncObject, EntryClass::DynGroup];
    let mut s = BTreeSet::default();
    let mut n = 0;
    let mut i = 0;
    while i < 6 {
        if bits & (1 << i) != 0 && n < 3 {
            s.insert(all[i].into());
            n += 1;
        }
        i += 1;
    }
    (s, bits)
}

/// Deleting a built-in entry (uuid in the system range) or an entry of a protected class is
/// denied for every user, whatever the access control profiles grant.
#[kani::proof]
#[kani::unwind(10)]
fn c20_delete_builtin_denied() {
    let k: u8 = kani::any();
    kani::assume(k < 6);
    let origin = match k {
        0 => IdentType::User(kani::any()),
        1 => IdentType::Synch(Uuid(kani::any())),
        2 => IdentType::Internal(InternalRole::System),
        3 => IdentType::Internal(InternalRole::Migration),
        4 => IdentType::Internal(InternalRole::AccountRequest),
        _ => IdentType::Internal(InternalRole::MessageQueue),
    };
    let ident = Identity { origin };
    let u = Uuid(kani::any());
    let (classes, _bits) = any_classes();
    let has_classes: bool = kani::any();
    let protected = has_classes
        && (classes.contains(&EntryClass::System.into()) || classes.contains(&EntryClass::Recycled.into()) || classes.contains(&EntryClass::SyncObject.into()) || classes.contains(&EntryClass::DynGroup.into()));
    let e: Arc<EntrySealedCommitted> = Arc::new(Entry { classes, has_classes, uuid_vs: Some(UuidVs { n: 1, first: u }), _p: core::marker::PhantomData });
    let r = protected_filter_entry(&ident, &e);
    if let IdentType::User(_) = origin {
        if u <= UUID_ANONYMOUS {
            check!(matches!(r, IResult::Deny), "C20: no user can delete a built-in entry");
        }
        if protected {
            check!(matches!(r, IResult::Deny), "C20: no user can delete an entry of a protected class");
        }
        if u > UUID_ANONYMOUS && !protected {
            check!(matches!(r, IResult::Ignore), "C20: other entries are left to the access control profiles");
        }
    }
    if let IdentType::Synch(_) = origin {
        check!(matches!(r, IResult::Deny), "C20: synchronisation identities never delete directly");
    }
    kani::cover!(matches!(r, IResult::Deny) && matches!(origin, IdentType::User(_)) && u > UUID_ANONYMOUS, "denied by class");
    kani::cover!(matches!(r, IResult::Ignore) && matches!(origin, IdentType::User(_)), "left to ACPs");
    core::mem::forget(e);
}

/// Reachability twin: must FAIL.
#[kani::proof]
#[kani::unwind(10)]
fn c20_twin_must_fail() {
    let ml = any_modlist();
    let me = ModifyEvent { modlist: ml };
    let mut cand: Vec<Entry<EntryInvalid, EntryCommitted>> = Vec::new();
    cand.push(blank_entry());
    let r = Base::pre_modify(&mut qs(), &[], &mut cand, &me);
    check!(r.is_ok() || r.is_err(), "reach");
    core::mem::forget(cand);
    kani::assert(false, "twin: reachable");
}
