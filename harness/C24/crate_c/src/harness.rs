use super::create::*;
use super::delete::{apply_delete_access, DeleteResult};
use super::*;

macro_rules! check {
    ($c:expr, $m:literal) => {
        kani::assert($c, $m)
    };
}

fn cbit(c: EntryClass) -> u64 {
    1u64 << (c as u8)
}
fn abit(a: Attribute) -> u64 {
    1u64 << (a as u8)
}
fn any_attr() -> Attribute {
    let i: u8 = kani::any();
    kani::assume(i < N_ATTRS);
    ALL_ATTRS[i as usize]
}
fn any_class() -> String {
    let i: u8 = kani::any();
    kani::assume(i < N_CLASSES);
    String(i)
}
fn any_uuid() -> Uuid {
    Uuid(kani::any::<u8>() % 4)
}
fn any_uuid_set() -> Option<BTreeSet<Uuid>> {
    if kani::any() {
        Some(BTreeSet::model_from_bits(kani::any::<u8>() as u64 & 0xf))
    } else {
        None
    }
}
fn any_ident(kind: u8) -> Identity {
    let scope = {
        let s: u8 = kani::any();
        kani::assume(s < 3);
        match s {
            0 => AccessScope::ReadOnly,
            1 => AccessScope::ReadWrite,
            _ => AccessScope::Synchronise,
        }
    };
    let origin = match kind {
        0 => IdentType::User(IdentUser { uuid: any_uuid(), memberof: any_uuid_set() }),
        1 => IdentType::Synch(any_uuid()),
        2 => IdentType::Internal(InternalRole::System),
        3 => IdentType::Internal(InternalRole::AccountRequest),
        _ => IdentType::Internal(InternalRole::MessageQueue),
    };
    Identity { origin, scope }
}

struct EntryBits {
    has_classes: bool,
    classes: u64,
    attrs: u64,
}
fn any_entry<A, B>() -> (Entry<A, B>, EntryBits) {
    let has_classes: bool = kani::any();
    let classes = {
        let b: u64 = kani::any();
        b & ((1u64 << N_CLASSES) - 1)
    };
    let attrs = {
        let b: u64 = kani::any();
        b & ((1u64 << N_ATTRS) - 1)
    };
    // stated bound: the entry carries at most 4 classes and 4 attributes (the code iterates both)
    kani::assume(classes.count_ones() <= 4 && attrs.count_ones() <= 4);
    // entry well-formedness: the class attribute is present exactly when there are classes, and a
    // present attribute has at least one value
    kani::assume(has_classes == (attrs & abit(Attribute::Class) != 0));
    kani::assume(!has_classes || classes != 0);
    let e = Entry {
        uuid: if kani::any() { Some(any_uuid()) } else { None },
        classes: if has_classes { Some(BTreeSet::model_from_bits(classes)) } else { None },
        attrs: BTreeSet::model_from_bits(attrs),
        // attribute names are the words p.. (bit 15 + index)
        names: BTreeSet::model_from_bits(attrs << N_CLASSES),
        class_words: BTreeSet::model_from_bits(classes),
        managed_by: any_uuid_set(),
        target_match: [kani::any(), kani::any()],
        _p: core::marker::PhantomData,
    };
    (e, EntryBits { has_classes, classes, attrs })
}

const PROTECTED: [EntryClass; 8] = [EntryClass::System, EntryClass::DomainInfo, EntryClass::SystemInfo, EntryClass::SystemConfig, EntryClass::DynGroup, EntryClass::SyncObject, EntryClass::Tombstone, EntryClass::Recycled];
fn prot_mask() -> u64 {
    let mut m = 0;
    let mut i = 0;
    while i < PROTECTED.len() {
        m |= cbit(PROTECTED[i]);
        i += 1;
    }
    m
}

fn any_create_acp() -> (AccessControlCreate, u64, u64) {
    let (la, lc): (usize, usize) = (kani::any(), kani::any());
    kani::assume(la <= 3 && lc <= 3);
    let a = [any_attr(), any_attr(), any_attr()];
    let c = [any_class(), any_class(), any_class()];
    let mut ab = 0u64;
    let mut cb = 0u64;
    let mut i = 0;
    while i < 3 {
        if i < la {
            ab |= abit(a[i]);
        }
        if i < lc {
            cb |= 1u64 << c[i].0;
        }
        i += 1;
    }
    (AccessControlCreate { acp: AccessControlProfileInner { name: AcpName }, attrs: List { len: la, items: a }, classes: List { len: lc, items: c } }, ab, cb)
}
fn rc(b: bool) -> AccessControlReceiverCondition {
    if b {
        AccessControlReceiverCondition::GroupChecked
    } else {
        AccessControlReceiverCondition::EntryManager
    }
}

struct Wit {
    allowed: bool,
    denied_protected: bool,
    denied_no_grant: bool,
}

/// create_allow_operation's per-entry decision with the real apply_create_access underneath
fn create_case(kind: u8) -> Wit {
    let ident = any_ident(kind);
    let (e, eb) = any_entry::<EntryInit, EntryNew>();
    let (a0, a0a, a0c) = any_create_acp();
    let (a1, a1a, a1c) = any_create_acp();
    let (r0, r1): (bool, bool) = (kani::any(), kani::any());
    let n_acp: usize = kani::any();
    kani::assume(n_acp <= 2);
    let mut related = std::vec::Vec::with_capacity(2);
    if n_acp > 0 {
        related.push(AccessControlCreateResolved { acp: &a0, receiver_condition: rc(r0), target_condition: AccessControlTargetCondition::Scope(FilterRef(0)) });
    }
    if n_acp > 1 {
        related.push(AccessControlCreateResolved { acp: &a1, receiver_condition: rc(r1), target_condition: AccessControlTargetCondition::Scope(FilterRef(1)) });
    }
    let scope = ident.scope;
    let ce = CreateEvent { ident };
    let entries = [e];
    let ok = create_decision(&ce, related, &entries);
    let e = &entries[0];

    let builtin = matches!(e.uuid, Some(u) if u <= UUID_ANONYMOUS);
    let protected = eb.has_classes && eb.classes & prot_mask() != 0;
    // one profile must cover the whole entry; the entry-manager condition never holds for creates
    let covers = |i: usize, grp: bool, aa: u64, cc: u64| i < n_acp && grp && e.target_match[i] && eb.attrs & !aa == 0 && eb.classes & !cc == 0;
    let granted = covers(0, r0, a0a, a0c) || covers(1, r1, a1a, a1c);
    let mut w = Wit { allowed: ok, denied_protected: false, denied_no_grant: false };
    if ok {
        check!(eb.has_classes, "C24: an entry without classes is never created");
    }
    match kind {
        0 => {
            if ok {
                check!(scope == AccessScope::ReadWrite, "C24: read-only and synchronise-scoped identities can never create");
                check!(!builtin, "C24: no user can create an entry in the built-in uuid range");
                check!(!protected, "C24: no user can create an entry with a protected class, whatever is granted");
                check!(granted, "C24: a user create succeeds only if one matching profile grants every attribute and class of the entry");
            }
            w.denied_protected = !ok && granted && scope == AccessScope::ReadWrite && (protected || builtin);
            w.denied_no_grant = !ok && !granted && scope == AccessScope::ReadWrite && !protected && !builtin && eb.has_classes;
        }
        1 => check!(!ok, "C24: synchronisation identities cannot create at all"),
        2 => {}
        3 => {
            if ok {
                let pa = abit(Attribute::Class) | abit(Attribute::DeleteAfter) | abit(Attribute::Name) | abit(Attribute::DisplayName) | abit(Attribute::Mail);
                let pc = cbit(EntryClass::Object) | cbit(EntryClass::AccountSignupRequest);
                check!(eb.attrs & !pa == 0 && eb.classes & !pc == 0, "C24: the account-request role creates only account signup requests");
            }
        }
        _ => {
            if ok {
                let pa = abit(Attribute::Class) | abit(Attribute::DeleteAfter) | abit(Attribute::MailDestination) | abit(Attribute::MessageTemplate) | abit(Attribute::SendAfter);
                let pc = cbit(EntryClass::Object) | cbit(EntryClass::OutboundMessage);
                check!(eb.attrs & !pa == 0 && eb.classes & !pc == 0 && eb.classes & cbit(EntryClass::OutboundMessage) != 0, "C24: the message-queue role creates only outbound messages");
            }
        }
    }
    core::mem::forget(entries);
    w
}

#[kani::proof]
#[kani::unwind(10)]
fn c24c_create_user() {
    let w = create_case(0);
    kani::cover!(w.allowed, "create allowed by a covering profile");
    kani::cover!(w.denied_protected, "granted but protected: denied");
    kani::cover!(w.denied_no_grant, "no covering profile: denied");
}
#[kani::proof]
#[kani::unwind(10)]
fn c24c_create_sync_identity() {
    let w = create_case(1);
    kani::cover!(!w.allowed, "denied");
}
#[kani::proof]
#[kani::unwind(10)]
fn c24c_create_internal_system() {
    let w = create_case(2);
    kani::cover!(w.allowed, "granted");
}
#[kani::proof]
#[kani::unwind(10)]
fn c24c_create_internal_account_request() {
    let w = create_case(3);
    kani::cover!(w.allowed, "signup request allowed");
    kani::cover!(!w.allowed, "anything else denied");
}
#[kani::proof]
#[kani::unwind(10)]
fn c24c_create_internal_message_queue() {
    let w = create_case(4);
    kani::cover!(w.allowed, "outbound message allowed");
    kani::cover!(!w.allowed, "anything else denied");
}

fn delete_case(kind: u8) -> (bool, bool, bool) {
    let ident = any_ident(kind);
    let (e, eb) = any_entry::<EntrySealed, EntryCommitted>();
    kani::assume(e.uuid.is_some());
    let e = Arc::new(e);
    let (d0, d1) = (AccessControlDelete { acp: AccessControlProfileInner { name: AcpName } }, AccessControlDelete { acp: AccessControlProfileInner { name: AcpName } });
    let (r0, r1): (bool, bool) = (kani::any(), kani::any());
    let n_acp: usize = kani::any();
    kani::assume(n_acp <= 2);
    let related_all = [
        AccessControlDeleteResolved { acp: &d0, receiver_condition: rc(r0), target_condition: AccessControlTargetCondition::Scope(FilterRef(0)) },
        AccessControlDeleteResolved { acp: &d1, receiver_condition: rc(r1), target_condition: AccessControlTargetCondition::Scope(FilterRef(1)) },
    ];
    let res = apply_delete_access(&ident, &related_all[..n_acp], &e);
    let ok = matches!(res, DeleteResult::Grant);
    let builtin = e.get_uuid() <= UUID_ANONYMOUS;
    let protected = eb.has_classes && eb.classes & prot_mask() != 0;
    let manager = match (&e.managed_by, &ident.origin) {
        (Some(mb), IdentType::User(u)) => mb.contains(&u.uuid) || u.memberof.map(|mo| mo.bits & mb.bits != 0).unwrap_or(false),
        _ => false,
    };
    let matches = |i: usize, grp: bool| i < n_acp && e.target_match[i] && (grp || manager);
    let granted = matches(0, r0) || matches(1, r1);
    match kind {
        0 => {
            if ok {
                check!(ident.scope == AccessScope::ReadWrite, "C24: read-only and synchronise-scoped identities can never delete");
                check!(!builtin, "C24: no user can delete a built-in entry");
                check!(!protected, "C24: no user can delete an entry with a protected class");
                check!(granted, "C24: a user delete succeeds only if a profile matching that user and that entry grants it");
            }
        }
        2 => check!(ok, "internal system identity is granted"),
        _ => check!(!ok, "C24: synchronisation, account-request and message-queue identities cannot delete at all"),
    }
    core::mem::forget(e);
    (ok, !ok && granted && (protected || builtin), !ok && !granted)
}

#[kani::proof]
#[kani::unwind(10)]
fn c24c_delete_user() {
    let (ok, dp, dn) = delete_case(0);
    kani::cover!(ok, "delete allowed by a matching profile");
    kani::cover!(dp, "granted but protected: denied");
    kani::cover!(dn, "no matching profile: denied");
}
#[kani::proof]
#[kani::unwind(10)]
fn c24c_delete_other_identities() {
    let k: u8 = kani::any();
    kani::assume(k >= 1 && k <= 4);
    let (ok, _, _) = match k {
        1 => delete_case(1),
        2 => delete_case(2),
        3 => delete_case(3),
        _ => delete_case(4),
    };
    kani::cover!(ok, "system granted");
    kani::cover!(!ok, "others denied");
}

/// Reachability twin: must FAIL.
#[kani::proof]
#[kani::unwind(10)]
fn c24c_twin_must_fail() {
    let w = create_case(0);
    kani::assert(false, "twin: reachable");
}
