//! K-slice crate for C24, part C (create and delete).  Generated on every run from /repo, text
//! unchanged:
//!   create  server/access/create.rs :: enum CreateResult, enum IResult, apply_create_access,
//!           create_filter_entry, protected_filter_entry, migration_filter_entry, message_queue;
//!           server/access/mod.rs :: the per-entry decision statement of create_allow_operation
//!   delete  server/access/delete.rs :: enum DeleteResult, enum IResult, apply_delete_access,
//!           delete_filter_entry, protected_filter_entry
//!   server/access/protected.rs :: PROTECTED_ENTRY_CLASSES, PROTECTED_MOD_PRES_ENTRY_CLASSES;
//!   server/access/profiles.rs :: enum AccessControlReceiverCondition
//! Models: text is a one-letter word (classes a..o, attribute names p..z), sets of words /
//! attributes / uuids are bitmasks; the entry and the identity as the fields read; a profile as
//! its grant lists + receiver condition + a symbolic "target filter matches this entry" bit;
//! LazyLock as a thunk; migration tables as empty stubs (Migration identity outside the claim).
#![allow(dead_code, unused_imports, unused_variables, unused_macros, static_mut_refs, non_upper_case_globals)]

use std::ops::Sub;
use std::sync::Arc;

macro_rules! trace { ($($t:tt)*) => { () }; }
macro_rules! debug { ($($t:tt)*) => { () }; }
macro_rules! info { ($($t:tt)*) => { () }; }
macro_rules! warn { ($($t:tt)*) => { () }; }
macro_rules! error { ($($t:tt)*) => { () }; }
macro_rules! admin_error { ($($t:tt)*) => { () }; }
macro_rules! security_access { ($($t:tt)*) => { () }; }
macro_rules! security_error { ($($t:tt)*) => { () }; }
macro_rules! security_critical { ($($t:tt)*) => { () }; }

include!("/verif/models/shim/bitset.rs");

pub const N_CLASSES: u8 = 15;
pub const N_ATTRS: u8 = 11;
pub const N_WORDS: u8 = 26;
/// all text: one-letter words; a..o are class names, p..z attribute names
pub const WORDS: [&str; 26] = ["a", "b", "c", "d", "e", "f", "g", "h", "i", "j", "k", "l", "m", "n", "o", "p", "q", "r", "s", "t", "u", "v", "w", "x", "y", "z"];
fn word_idx(s: &str) -> u8 {
    let b = s.as_bytes();
    if b.len() == 1 && b[0] >= b'a' && b[0] <= b'z' {
        b[0] - b'a'
    } else {
        25
    }
}
impl<'a> SmallKey for &'a str {
    const N: u8 = N_WORDS;
    fn idx(&self) -> u8 {
        word_idx(self)
    }
    fn table<'t>() -> &'t [Self]
    where
        Self: 't,
    {
        &WORDS
    }
}
impl<'a> KeyBorrow<str> for &'a str {
    fn idx_of(q: &str) -> u8 {
        word_idx(q)
    }
}

#[derive(Clone, Copy, Debug, PartialEq, Eq, PartialOrd, Ord)]
#[repr(u8)]
pub enum Attribute {
    Class,
    DeleteAfter,
    Name,
    DisplayName,
    Mail,
    MailDestination,
    MessageTemplate,
    SendAfter,
    EntryManagedBy,
    Member,
    Uuid,
}
pub const ALL_ATTRS: [Attribute; N_ATTRS as usize] = [
    Attribute::Class,
    Attribute::DeleteAfter,
    Attribute::Name,
    Attribute::DisplayName,
    Attribute::Mail,
    Attribute::MailDestination,
    Attribute::MessageTemplate,
    Attribute::SendAfter,
    Attribute::EntryManagedBy,
    Attribute::Member,
    Attribute::Uuid,
];
impl Attribute {
    pub fn as_str(&self) -> &'static str {
        WORDS[(N_CLASSES + *self as u8) as usize]
    }
}
impl SmallKey for Attribute {
    const N: u8 = N_ATTRS;
    fn idx(&self) -> u8 {
        *self as u8
    }
    fn table<'t>() -> &'t [Self]
    where
        Self: 't,
    {
        &ALL_ATTRS
    }
}

#[derive(Clone, Copy, Debug, PartialEq, Eq)]
#[repr(u8)]
pub enum EntryClass {
    Object,
    AccountSignupRequest,
    OutboundMessage,
    System,
    DomainInfo,
    SystemInfo,
    SystemConfig,
    DynGroup,
    SyncObject,
    Tombstone,
    Recycled,
    Account,
    Group,
    Person,
    Other,
}
/// iutf8 class names: the class id
#[derive(Clone, Copy, Debug, PartialEq, Eq, PartialOrd, Ord)]
pub struct String(pub u8);
impl String {
    pub fn as_str(&self) -> &'static str {
        WORDS[(self.0 % N_CLASSES) as usize]
    }
}
pub const ALL_STRINGS: [String; N_CLASSES as usize] = {
    let mut a = [String(0); N_CLASSES as usize];
    let mut i = 0;
    while i < N_CLASSES as usize {
        a[i] = String(i as u8);
        i += 1;
    }
    a
};
impl SmallKey for String {
    const N: u8 = N_CLASSES;
    fn idx(&self) -> u8 {
        self.0 % N_CLASSES
    }
    fn table<'t>() -> &'t [Self]
    where
        Self: 't,
    {
        &ALL_STRINGS
    }
}
pub type AttrString = String;
impl KeyBorrow<str> for String {
    fn idx_of(q: &str) -> u8 {
        word_idx(q) % N_CLASSES
    }
}
impl From<EntryClass> for &'static str {
    fn from(c: EntryClass) -> &'static str {
        WORDS[c as usize]
    }
}
impl From<EntryClass> for String {
    fn from(c: EntryClass) -> String {
        String(c as u8)
    }
}

#[derive(Clone, Copy, Debug, PartialEq, Eq, PartialOrd, Ord)]
pub struct Uuid(pub u8);
impl SmallKey for Uuid {
    const N: u8 = 4;
    fn idx(&self) -> u8 {
        self.0 % 4
    }
    fn table<'t>() -> &'t [Self]
    where
        Self: 't,
    {
        &[Uuid(0), Uuid(1), Uuid(2), Uuid(3)]
    }
}
/// the greatest built-in uuid; entry uuids 0..=UUID_ANONYMOUS are the system range
pub const UUID_ANONYMOUS: Uuid = Uuid(1);

pub struct LazyLock<T> {
    f: fn() -> T,
}
impl<T> LazyLock<T> {
    pub const fn new(f: fn() -> T) -> Self {
        LazyLock { f }
    }
}
impl<T> core::ops::Deref for LazyLock<T> {
    type Target = T;
    fn deref(&self) -> &T {
        std::boxed::Box::leak(std::boxed::Box::new((self.f)()))
    }
}

#[derive(Clone, Copy, Debug, PartialEq, Eq)]
pub enum AccessScope {
    ReadOnly,
    ReadWrite,
    Synchronise,
}
#[derive(Clone, Copy, Debug, PartialEq, Eq)]
pub enum InternalRole {
    System,
    Migration,
    AccountRequest,
    MessageQueue,
}
#[derive(Clone, Copy, Debug)]
pub struct IdentUser {
    pub uuid: Uuid,
    pub memberof: Option<BTreeSet<Uuid>>,
}
#[derive(Clone, Copy, Debug)]
pub enum IdentType {
    User(IdentUser),
    Synch(Uuid),
    Internal(InternalRole),
}
pub struct Identity {
    pub origin: IdentType,
    pub scope: AccessScope,
}
impl Identity {
    pub fn access_scope(&self) -> AccessScope {
        self.scope
    }
    pub fn get_uuid(&self) -> Uuid {
        match &self.origin {
            IdentType::Internal(_) => Uuid(0),
            IdentType::User(u) => u.uuid,
            IdentType::Synch(u) => *u,
        }
    }
    pub fn get_memberof(&self) -> Option<&BTreeSet<Uuid>> {
        match &self.origin {
            IdentType::Internal(_) | IdentType::Synch(_) => None,
            IdentType::User(u) => u.memberof.as_ref(),
        }
    }
}
impl core::fmt::Display for Identity {
    fn fmt(&self, _f: &mut core::fmt::Formatter<'_>) -> core::fmt::Result {
        Ok(())
    }
}

pub struct FilterRef(pub usize);
pub struct EntryInit;
pub struct EntryNew;
pub struct EntrySealed;
pub struct EntryCommitted;
/// an entry, as far as the create / delete rules read it
pub struct Entry<A, B> {
    pub uuid: Option<Uuid>,
    pub classes: Option<BTreeSet<String>>,
    /// the attributes present, as Attribute keys and as their names
    pub attrs: BTreeSet<Attribute>,
    pub names: BTreeSet<&'static str>,
    pub class_words: BTreeSet<&'static str>,
    pub managed_by: Option<BTreeSet<Uuid>>,
    /// for each profile i: does its target filter match this entry (symbolic)
    pub target_match: [bool; 2],
    pub _p: core::marker::PhantomData<(A, B)>,
}
pub type EntrySealedCommitted = Entry<EntrySealed, EntryCommitted>;
impl<A, B> Entry<A, B> {
    pub fn get_ava_as_iutf8(&self, a: Attribute) -> Option<&BTreeSet<String>> {
        match a {
            Attribute::Class => self.classes.as_ref(),
            _ => None,
        }
    }
    pub fn get_ava_names(&self) -> core::iter::Cloned<BitIter<'_, &'static str>> {
        self.names.iter().cloned()
    }
    pub fn attr_keys(&self) -> BitIter<'_, Attribute> {
        self.attrs.iter()
    }
    pub fn get_ava_iter_iutf8(&self, a: Attribute) -> Option<core::iter::Cloned<BitIter<'_, &'static str>>> {
        match (a, &self.classes) {
            (Attribute::Class, Some(_)) => Some(self.class_words.iter().cloned()),
            _ => None,
        }
    }
    pub fn get_ava_refer(&self, a: Attribute) -> Option<&BTreeSet<Uuid>> {
        None.or(self.managed_by.as_ref())
    }
    pub fn entry_match_no_index(&self, f: &FilterRef) -> bool {
        self.target_match[f.0 % 2]
    }
    pub fn get_display_id(&self) -> u8 {
        0
    }
}
impl Entry<EntryInit, EntryNew> {
    pub fn get_uuid(&self) -> Option<Uuid> {
        self.uuid
    }
}
impl Entry<EntrySealed, EntryCommitted> {
    pub fn get_uuid(&self) -> Uuid {
        match self.uuid {
            Some(u) => u,
            None => Uuid(3),
        }
    }
}

pub struct AcpName;
impl core::fmt::Display for AcpName {
    fn fmt(&self, _f: &mut core::fmt::Formatter<'_>) -> core::fmt::Result {
        Ok(())
    }
}
impl core::fmt::Debug for AcpName {
    fn fmt(&self, _f: &mut core::fmt::Formatter<'_>) -> core::fmt::Result {
        Ok(())
    }
}
pub struct AccessControlProfileInner {
    pub name: AcpName,
}
/// grant lists: short fixed lists with the iterator API the code uses
#[derive(Clone, Copy)]
pub struct List<T: Copy> {
    pub len: usize,
    pub items: [T; 3],
}
impl<T: Copy> List<T> {
    pub fn iter(&self) -> core::slice::Iter<'_, T> {
        self.items[..self.len].iter()
    }
}
pub struct AccessControlCreate {
    pub acp: AccessControlProfileInner,
    pub attrs: List<Attribute>,
    pub classes: List<AttrString>,
}
pub struct AccessControlDelete {
    pub acp: AccessControlProfileInner,
}
pub enum AccessControlTargetCondition {
    Scope(FilterRef),
}
pub struct AccessControlCreateResolved<'a> {
    pub acp: &'a AccessControlCreate,
    pub receiver_condition: AccessControlReceiverCondition,
    pub target_condition: AccessControlTargetCondition,
}
pub struct AccessControlDeleteResolved<'a> {
    pub acp: &'a AccessControlDelete,
    pub receiver_condition: AccessControlReceiverCondition,
    pub target_condition: AccessControlTargetCondition,
}
pub struct CreateEvent {
    pub ident: Identity,
}

// migration tables: stubs (the Migration identity is outside the claim)
pub static MIGRATION_ENTRY_CLASSES: LazyLock<BTreeSet<String>> = LazyLock::new(|| BTreeSet::default());
pub static MIGRATION_IGNORE_CLASSES: LazyLock<BTreeSet<String>> = LazyLock::new(|| BTreeSet::default());
pub fn migration_entry_attrs(_c: &BTreeSet<String>) -> (BTreeSet<Attribute>, BTreeSet<&'static str>) {
    (BTreeSet::default(), BTreeSet::default())
}

pub mod shared {
    use super::*;
    include!("slice_types.rs");
}
pub use shared::*;
pub mod create {
    use super::*;
    include!("slice_create.rs");
}
pub mod delete {
    use super::*;
    include!("slice_delete.rs");
}

#[cfg(kani)]
mod harness;
