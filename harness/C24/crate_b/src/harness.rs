use super::*;

macro_rules! check {
    ($c:expr, $m:literal) => {
        kani::assert($c, $m)
    };
}

fn any_attr_bits() -> u64 {
    let b: u64 = kani::any();
    b & ((1u64 << N_ATTRS) - 1)
}
fn any_class_bits() -> u64 {
    let b: u64 = kani::any();
    b & ((1u64 << N_CLASSES) - 1)
}
fn cbit(c: EntryClass) -> u64 {
    1u64 << (c as u8)
}
fn abit(a: Attribute) -> u64 {
    1u64 << (a as u8)
}
fn any_attr() -> Attribute {
    let i: u8 = kani::any();
    kani::assume(i < N_ATTRS);
    ALL_ATTRS[i as usize]
}
fn any_class() -> String {
    let i: u8 = kani::any();
    kani::assume(i < N_CLASSES);
    String(i)
}

struct Acp {
    m: AccessControlModify,
    pres: u64,
    rem: u64,
    pres_cls: u64,
    rem_cls: u64,
}
fn any_acp(maxlen: usize) -> Acp {
    let lens: [usize; 4] = [kani::any(), kani::any(), kani::any(), kani::any()];
    kani::assume(lens[0] <= maxlen && lens[1] <= maxlen && lens[2] <= maxlen && lens[3] <= maxlen);
    let pa = [any_attr(), any_attr()];
    let ra = [any_attr(), any_attr()];
    let pc = [any_class(), any_class()];
    let rc = [any_class(), any_class()];
    let mask = |l: usize, a: u64, b: u64| if l == 0 { 0 } else if l == 1 { a } else { a | b };
    Acp {
        m: AccessControlModify {
            acp: AccessControlProfileInner { name: AcpName },
            presattrs: List { len: lens[0], items: pa },
            remattrs: List { len: lens[1], items: ra },
            pres_classes: List { len: lens[2], items: pc },
            rem_classes: List { len: lens[3], items: rc },
        },
        pres: mask(lens[0], abit(pa[0]), abit(pa[1])),
        rem: mask(lens[1], abit(ra[0]), abit(ra[1])),
        pres_cls: mask(lens[2], 1u64 << pc[0].0, 1u64 << pc[1].0),
        rem_cls: mask(lens[3], 1u64 << rc[0].0, 1u64 << rc[1].0),
    }
}

fn any_ident(kind: u8) -> (Identity, u8) {
    let k: u8 = kind;
    let scope = {
        let s: u8 = kani::any();
        kani::assume(s < 3);
        match s {
            0 => AccessScope::ReadOnly,
            1 => AccessScope::ReadWrite,
            _ => AccessScope::Synchronise,
        }
    };
    let origin = match k {
        0 => IdentType::User(IdentUser { uuid: Uuid(kani::any::<u8>() % 4), memberof: if kani::any() { Some(BTreeSet::model_from_bits(kani::any::<u8>() as u64 & 0xf)) } else { None } }),
        1 => IdentType::Synch(Uuid(kani::any::<u8>() % 4)),
        2 => IdentType::Internal(InternalRole::System),
        3 => IdentType::Internal(InternalRole::AccountRequest),
        _ => IdentType::Internal(InternalRole::MessageQueue),
    };
    (Identity { origin, scope }, k)
}

const PROT_PRES: [EntryClass; 8] = [EntryClass::System, EntryClass::DomainInfo, EntryClass::SystemInfo, EntryClass::SystemConfig, EntryClass::DynGroup, EntryClass::SyncObject, EntryClass::Tombstone, EntryClass::Recycled];
const PROT_REM: [EntryClass; 7] = [EntryClass::System, EntryClass::DomainInfo, EntryClass::SystemInfo, EntryClass::SystemConfig, EntryClass::DynGroup, EntryClass::SyncObject, EntryClass::Tombstone];
fn mask_of(cs: &[EntryClass]) -> u64 {
    let mut m = 0;
    let mut i = 0;
    while i < cs.len() {
        m |= cbit(cs[i]);
        i += 1;
    }
    m
}

/// What apply_modify_access leaves allowed, for every identity kind, entry and pair of profiles.
#[derive(PartialEq, Clone, Copy)]
enum Claim {
    /// C24: what is granted, protection rules
    Grants,
    /// C50 (user side): a synchronised entry is changed only in yielded + session state
    SyncEntry,
    /// the same, restricted to sync objects that do NOT also fall under the protection ruleset
    SyncEntryOrdinary,
}

struct Witness {
    allowed_something: bool,
    recycled_removable: bool,
    rw_user_denied: bool,
    sync_constrained: bool,
    yielded_allowed: bool,
    deny: bool,
    grant: bool,
}

fn granted_sets(kind: u8, n_acp: usize, claim: Claim) -> Witness {
    let (ident, ik) = any_ident(kind);
    let class_bits = any_class_bits();
    let has_classes: bool = kani::any();
    let euuid = Uuid(kani::any::<u8>() % 4);
    if claim == Claim::SyncEntry || claim == Claim::SyncEntryOrdinary {
        kani::assume(has_classes && class_bits & cbit(EntryClass::SyncObject) != 0);
    }
    if claim == Claim::SyncEntryOrdinary {
        let prot = mask_of(&[EntryClass::System, EntryClass::DomainInfo, EntryClass::SystemInfo, EntryClass::SystemConfig, EntryClass::DynGroup, EntryClass::Tombstone, EntryClass::Recycled]);
        kani::assume(euuid > UUID_ANONYMOUS && class_bits & prot == 0);
    }
    let cset: BTreeSet<String> = BTreeSet::model_from_bits(class_bits);
    // a sync agreement yields at most 3 attributes (stated bound)
    let yielded = { let n: u8 = kani::any(); kani::assume(n <= 3); let (y0, y1, y2) = (abit(any_attr()), abit(any_attr()), abit(any_attr())); match n { 0 => 0, 1 => y0, 2 => y0 | y1, _ => y0 | y1 | y2 } };
    let sync_parent = if kani::any() { Some(Uuid(kani::any::<u8>() % 4)) } else { None };
    let agreements: HashMap<Uuid, BTreeSet<Attribute>> = HashMap { one: if kani::any() { Some((Uuid(kani::any::<u8>() % 4), BTreeSet::model_from_bits(yielded))) } else { None } };
    let entry = Arc::new(EntrySealedCommitted {
        uuid: euuid,
        classes: if has_classes { Some(cset) } else { None },
        class_vs: if has_classes { Some(ClassVs { set: cset }) } else { None },
        managed_by: if kani::any() { Some(BTreeSet::model_from_bits(kani::any::<u8>() as u64 & 0xf)) } else { None },
        sync_parent,
        target_match: [kani::any(), kani::any()],
    });
    // one profile: grant lists of <= 2; two profiles: <= 1 each (stated bound)
    let maxlen = if n_acp >= 2 { 1 } else { 2 };
    let a0 = any_acp(maxlen);
    let a1 = any_acp(maxlen);
    let rc = |b: bool| if b { AccessControlReceiverCondition::GroupChecked } else { AccessControlReceiverCondition::EntryManager };
    let (r0, r1): (bool, bool) = (kani::any(), kani::any());
    let related_all = [
        AccessControlModifyResolved { acp: &a0.m, receiver_condition: rc(r0), target_condition: AccessControlTargetCondition::Scope(FilterRef(0)) },
        AccessControlModifyResolved { acp: &a1.m, receiver_condition: rc(r1), target_condition: AccessControlTargetCondition::Scope(FilterRef(1)) },
    ];
    let related = &related_all[..n_acp];
    let res = apply_modify_access(&ident, related, &agreements, &entry);

    let is_user = ik == 0;
    match &res {
        ModifyResult::Grant => {
            check!(ik == 2, "C24: an unconditional grant is only ever given to the internal system identity");
        }
        ModifyResult::Deny => {}
        ModifyResult::Allow { pres, rem, pres_cls, rem_cls } => {
            check!(is_user, "C24: only users are evaluated against access control profiles");
            check!(ident.scope == AccessScope::ReadWrite, "C24: read-only and synchronise-scoped identities can never modify");
            // union of what the profiles that MATCH this user and entry grant
            let matches = |i: usize, grp_checked: bool| -> bool {
                if i >= n_acp || !entry.target_match[i] {
                    return false;
                }
                if grp_checked {
                    return true;
                }
                // entry-manager condition: the entry names the user or one of the user's groups
                match (&entry.managed_by, &ident.origin) {
                    (Some(mb), IdentType::User(u)) => mb.contains(&u.uuid) || u.memberof.map(|mo| mo.bits & mb.bits != 0).unwrap_or(false),
                    _ => false,
                }
            };
            let (m0, m1) = (matches(0, r0), matches(1, r1));
            let g_pres = (if m0 { a0.pres } else { 0 }) | (if m1 { a1.pres } else { 0 });
            let g_rem = (if m0 { a0.rem } else { 0 }) | (if m1 { a1.rem } else { 0 });
            let g_pc = (if m0 { a0.pres_cls } else { 0 }) | (if m1 { a1.pres_cls } else { 0 });
            let g_rc = (if m0 { a0.rem_cls } else { 0 }) | (if m1 { a1.rem_cls } else { 0 });
            if claim == Claim::Grants {
            check!(pres.bits & !g_pres == 0, "C24: an attribute may be added to only if a matching profile grants adding it");
            check!(rem.bits & !g_rem == 0, "C24: an attribute may be removed from only if a matching profile grants removing it");
            check!(pres_cls.bits & !g_pc == 0, "C24: a class may be added only if a matching profile grants it");
            check!(rem_cls.bits & !g_rc == 0, "C24: a class may be removed only if a matching profile grants it");
            check!(pres_cls.bits & mask_of(&PROT_PRES) == 0, "C24: no user can add a protected class, whatever is granted");
            check!(rem_cls.bits & mask_of(&PROT_REM) == 0, "C24: no user can remove a protected class (other than recycled), whatever is granted");
            if has_classes && class_bits & cbit(EntryClass::Tombstone) != 0 {
                check!(false, "C24: tombstones can never be modified");
            }
            }
            // synchronised entries: only session / credential-reset state and yielded attributes
            if claim == Claim::SyncEntry || claim == Claim::SyncEntryOrdinary {
                let base = abit(Attribute::UserAuthTokenSession) | abit(Attribute::OAuth2Session) | abit(Attribute::OAuth2ConsentScopeMap) | abit(Attribute::CredentialUpdateIntentToken);
                let y = match (&agreements.one, sync_parent) {
                    (Some((k, _)), Some(p)) if *k == p => yielded,
                    _ => 0,
                };
                check!(sync_parent.is_some(), "C50: a sync object without a parent agreement cannot be modified by users");
                let inside = pres.bits & !(base | y) == 0 && rem.bits & !(base | y) == 0;
                // does the entry ALSO fall under the protection ruleset (built-in uuid range or a
                // protected class)?  only used to tell the two assertions apart
                let prot = mask_of(&[EntryClass::System, EntryClass::DomainInfo, EntryClass::SystemInfo, EntryClass::SystemConfig, EntryClass::DynGroup, EntryClass::Tombstone, EntryClass::Recycled]);
                let under_protection = !(euuid > UUID_ANONYMOUS) || class_bits & prot != 0;
                if under_protection {
                    check!(inside, "C50: users change a synchronised entry that also falls under the protection rules only in session / credential-reset state and yielded attributes");
                } else {
                    check!(inside, "C50: users change a synchronised entry only in session / credential-reset state and attributes yielded to Kanidm's authority");
                }
            }
        }
    }
    // identities that can never modify
    if ik == 1 || ik == 3 || ik == 4 {
        check!(matches!(res, ModifyResult::Deny), "C24: synchronisation, account-request and message-queue identities cannot modify at all");
    }
    if is_user && ident.scope != AccessScope::ReadWrite {
        check!(matches!(res, ModifyResult::Deny), "C24: read-only and synchronise-scoped identities can never modify");
    }
    let w = Witness {
        allowed_something: matches!(&res, ModifyResult::Allow { pres, .. } if pres.bits != 0),
        recycled_removable: matches!(&res, ModifyResult::Allow { rem_cls, .. } if rem_cls.bits == cbit(EntryClass::Recycled)),
        rw_user_denied: matches!(res, ModifyResult::Deny) && is_user && ident.scope == AccessScope::ReadWrite,
        sync_constrained: matches!(&res, ModifyResult::Allow { .. }) && has_classes && class_bits & cbit(EntryClass::SyncObject) != 0,
        yielded_allowed: matches!(&res, ModifyResult::Allow { pres, .. } if pres.bits & yielded != 0) && has_classes && class_bits & cbit(EntryClass::SyncObject) != 0,
        deny: matches!(res, ModifyResult::Deny),
        grant: matches!(res, ModifyResult::Grant),
    };
    core::mem::forget(entry);
    w
}

#[kani::proof]
#[kani::unwind(16)]
fn c24b_user_no_profile() {
    let w = granted_sets(0, 0, Claim::Grants);
    kani::cover!(w.rw_user_denied, "read-write user denied by protection rules");
    kani::cover!(!w.deny && !w.allowed_something, "nothing granted, nothing allowed");
}
#[kani::proof]
#[kani::unwind(16)]
fn c24b_user_one_profile() {
    let w = granted_sets(0, 1, Claim::Grants);
    kani::cover!(w.allowed_something, "user allowed something by profiles");
    kani::cover!(w.recycled_removable, "recycled may be removed when granted");
    kani::cover!(w.rw_user_denied, "read-write user denied by protection rules");
    kani::cover!(w.sync_constrained, "sync object, constrained");
}
#[kani::proof]
#[kani::unwind(16)]
fn c24b_user_two_profiles() {
    let w = granted_sets(0, 2, Claim::Grants);
    kani::cover!(w.allowed_something, "user allowed something by profiles");
    kani::cover!(w.recycled_removable, "recycled may be removed when granted");
    kani::cover!(w.rw_user_denied, "read-write user denied by protection rules");
    kani::cover!(w.sync_constrained, "sync object, constrained");
}
#[kani::proof]
#[kani::unwind(16)]
fn c24b_sync_identity() {
    let w = granted_sets(1, 2, Claim::Grants);
    kani::cover!(w.deny, "denied");
}
#[kani::proof]
#[kani::unwind(16)]
fn c24b_internal_system() {
    let w = granted_sets(2, 2, Claim::Grants);
    kani::cover!(w.grant, "granted");
}
#[kani::proof]
#[kani::unwind(16)]
fn c24b_internal_account_request() {
    let w = granted_sets(3, 2, Claim::Grants);
    kani::cover!(w.deny, "denied");
}
#[kani::proof]
#[kani::unwind(16)]
fn c24b_internal_message_queue() {
    let w = granted_sets(4, 2, Claim::Grants);
    kani::cover!(w.deny, "denied");
}

#[kani::proof]
#[kani::unwind(16)]
fn c50_user_edit_of_sync_entry_one_profile() {
    let w = granted_sets(0, 1, Claim::SyncEntry);
    kani::cover!(w.sync_constrained, "sync object, constrained");
    kani::cover!(w.yielded_allowed, "a yielded attribute is allowed");
    kani::cover!(w.deny, "a sync object denied");
}
#[kani::proof]
#[kani::unwind(16)]
fn c50_user_edit_of_sync_entry_two_profiles() {
    let w = granted_sets(0, 2, Claim::SyncEntry);
    kani::cover!(w.sync_constrained, "sync object, constrained");
    kani::cover!(w.yielded_allowed, "a yielded attribute is allowed");
    kani::cover!(w.deny, "a sync object denied");
}

#[kani::proof]
#[kani::unwind(16)]
fn c50_user_edit_of_ordinary_sync_entry_one_profile() {
    let w = granted_sets(0, 1, Claim::SyncEntryOrdinary);
    kani::cover!(w.sync_constrained, "sync object, constrained");
    kani::cover!(w.yielded_allowed, "a yielded attribute is allowed");
    kani::cover!(w.deny, "a sync object denied");
}
#[kani::proof]
#[kani::unwind(16)]
fn c50_user_edit_of_sync_entry_no_profile() {
    let w = granted_sets(0, 0, Claim::SyncEntry);
    kani::cover!(w.deny, "a sync object denied");
    kani::cover!(!w.deny && !w.allowed_something, "nothing granted, nothing allowed");
}

/// Reachability twin: must FAIL.
#[kani::proof]
#[kani::unwind(16)]
fn c24b_twin_must_fail() {
    let (ident, _) = any_ident(0);
    let entry = Arc::new(EntrySealedCommitted { uuid: Uuid(3), classes: None, class_vs: None, managed_by: None, sync_parent: None, target_match: [true, true] });
    let agreements: HashMap<Uuid, BTreeSet<Attribute>> = HashMap { one: None };
    let res = apply_modify_access(&ident, &[], &agreements, &entry);
    check!(matches!(res, ModifyResult::Deny) || !matches!(res, ModifyResult::Deny), "reach");
    core::mem::forget(entry);
    kani::assert(false, "twin: reachable");
}
