//! K-slice crate for C24, part B (what is granted).  Generated on every run from /repo, text
//! unchanged:
//!   slice_types.rs  server/access/mod.rs :: enum AccessBasicResult, enum AccessModResult;
//!                   server/access/modify.rs :: enum ModifyResult;
//!                   server/access/profiles.rs :: enum AccessControlReceiverCondition;
//!                   server/access/protected.rs :: the four statics used by modify.rs
//!   slice_fns.rs    server/access/modify.rs :: apply_modify_access, modify_ident_test,
//!                   modify_pres_test, modify_sync_constrain, modify_protected_attrs,
//!                   modify_protected_entry_attrs, modify_migration_attrs
//! Models: attribute / class / uuid sets as bitmasks over fixed vocabularies (every attribute and
//! class the sliced code names, plus generic ones); the entry and the identity as the fields
//! read; an access control profile as its four grant lists + receiver condition + a symbolic
//! "target filter matches this entry" bit; LazyLock as a thunk; migration tables as empty stubs
//! (the Migration identity is outside the claim).
#![allow(dead_code, unused_imports, unused_variables, unused_macros, static_mut_refs, non_upper_case_globals)]

use std::ops::Sub;
use std::sync::Arc;

macro_rules! trace { ($($t:tt)*) => { () }; }
macro_rules! debug { ($($t:tt)*) => { () }; }
macro_rules! warn { ($($t:tt)*) => { () }; }
macro_rules! security_access { ($($t:tt)*) => { () }; }
macro_rules! security_critical { ($($t:tt)*) => { () }; }
macro_rules! btreeset {
    ($($e:expr),+ $(,)?) => {{
        let mut x = BTreeSet::new();
        $( x.insert($e); )+
        x
    }};
}

include!("/verif/models/shim/bitset.rs");

#[derive(Clone, Copy, Debug, PartialEq, Eq, PartialOrd, Ord)]
#[repr(u8)]
pub enum Attribute {
    AccountExpire,
    AccountValidFrom,
    AllowPrimaryCredFallback,
    ApiTokenSession,
    AuthPasswordMinimumLength,
    AuthSessionExpiry,
    BadlistPassword,
    Class,
    CredentialTypeMinimum,
    CredentialUpdateIntentToken,
    DeniedName,
    DomainAllowAccountRecovery,
    DomainAllowEasterEggs,
    DomainDisplayName,
    DomainLdapBasedn,
    DomainSsid,
    EntryManagedBy,
    Es256PrivateKeyDer,
    FernetPrivateKeyStr,
    IdVerificationEcKey,
    Image,
    KeyActionRevoke,
    KeyActionRotate,
    LdapAllowUnixPwBind,
    LdapMaxQueryableAttrs,
    LimitSearchMaxFilterTest,
    LimitSearchMaxResults,
    Mail,
    May,
    Member,
    Must,
    OAuth2ConsentScopeMap,
    OAuth2Session,
    PrimaryCredential,
    PrivilegeExpiry,
    SshPublicKey,
    SyncParentUuid,
    UserAuthTokenSession,
    WebauthnAttestationCaList,
    Name,
    DisplayName,
    Description,
    Uuid,
    MemberOf,
}
pub const N_ATTRS: u8 = 44;
pub const ALL_ATTRS: [Attribute; N_ATTRS as usize] = [
    Attribute::AccountExpire,
    Attribute::AccountValidFrom,
    Attribute::AllowPrimaryCredFallback,
    Attribute::ApiTokenSession,
    Attribute::AuthPasswordMinimumLength,
    Attribute::AuthSessionExpiry,
    Attribute::BadlistPassword,
    Attribute::Class,
    Attribute::CredentialTypeMinimum,
    Attribute::CredentialUpdateIntentToken,
    Attribute::DeniedName,
    Attribute::DomainAllowAccountRecovery,
    Attribute::DomainAllowEasterEggs,
    Attribute::DomainDisplayName,
    Attribute::DomainLdapBasedn,
    Attribute::DomainSsid,
    Attribute::EntryManagedBy,
    Attribute::Es256PrivateKeyDer,
    Attribute::FernetPrivateKeyStr,
    Attribute::IdVerificationEcKey,
    Attribute::Image,
    Attribute::KeyActionRevoke,
    Attribute::KeyActionRotate,
    Attribute::LdapAllowUnixPwBind,
    Attribute::LdapMaxQueryableAttrs,
    Attribute::LimitSearchMaxFilterTest,
    Attribute::LimitSearchMaxResults,
    Attribute::Mail,
    Attribute::May,
    Attribute::Member,
    Attribute::Must,
    Attribute::OAuth2ConsentScopeMap,
    Attribute::OAuth2Session,
    Attribute::PrimaryCredential,
    Attribute::PrivilegeExpiry,
    Attribute::SshPublicKey,
    Attribute::SyncParentUuid,
    Attribute::UserAuthTokenSession,
    Attribute::WebauthnAttestationCaList,
    Attribute::Name,
    Attribute::DisplayName,
    Attribute::Description,
    Attribute::Uuid,
    Attribute::MemberOf,
];
impl SmallKey for Attribute {
    const N: u8 = N_ATTRS;
    fn idx(&self) -> u8 {
        *self as u8
    }
    fn table<'t>() -> &'t [Self]
    where
        Self: 't,
    {
        &ALL_ATTRS
    }
}
impl AsRef<Attribute> for Attribute {
    fn as_ref(&self) -> &Attribute {
        self
    }
}

#[derive(Clone, Copy, Debug, PartialEq, Eq)]
#[repr(u8)]
pub enum EntryClass {
    Account,
    ClassType,
    DomainInfo,
    DynGroup,
    Group,
    Recycled,
    ServiceAccount,
    SyncObject,
    SystemConfig,
    System,
    SystemInfo,
    Tombstone,
    Person,
    Object,
    Other,
}
pub const N_CLASSES: u8 = 15;
/// class names as one-letter words (index <-> text)
pub const CLASS_WORDS: [&str; N_CLASSES as usize] = ["a", "b", "c", "d", "e", "f", "g", "h", "i", "j", "k", "l", "m", "n", "o"];
fn word_idx(s: &str) -> u8 {
    let b = s.as_bytes();
    if b.len() == 1 && b[0] >= b'a' && b[0] < b'a' + N_CLASSES {
        b[0] - b'a'
    } else {
        N_CLASSES - 1
    }
}
/// iutf8 class names: the class id
#[derive(Clone, Copy, Debug, PartialEq, Eq, PartialOrd, Ord)]
pub struct String(pub u8);
impl String {
    pub fn as_str(&self) -> &'static str {
        CLASS_WORDS[(self.0 % N_CLASSES) as usize]
    }
}
impl SmallKey for String {
    const N: u8 = N_CLASSES;
    fn idx(&self) -> u8 {
        self.0 % N_CLASSES
    }
    fn table<'t>() -> &'t [Self]
    where
        Self: 't,
    {
        &ALL_STRINGS
    }
}
pub const ALL_STRINGS: [String; N_CLASSES as usize] = {
    let mut a = [String(0); N_CLASSES as usize];
    let mut i = 0;
    while i < N_CLASSES as usize {
        a[i] = String(i as u8);
        i += 1;
    }
    a
};
pub type AttrString = String;
impl<'a> SmallKey for &'a str {
    const N: u8 = N_CLASSES;
    fn idx(&self) -> u8 {
        word_idx(self)
    }
    fn table<'t>() -> &'t [Self]
    where
        Self: 't,
    {
        &CLASS_WORDS
    }
}
impl KeyBorrow<str> for String {
    fn idx_of(q: &str) -> u8 {
        word_idx(q)
    }
}
impl<'a> KeyBorrow<str> for &'a str {
    fn idx_of(q: &str) -> u8 {
        word_idx(q)
    }
}
impl From<EntryClass> for &'static str {
    fn from(c: EntryClass) -> &'static str {
        CLASS_WORDS[c as usize]
    }
}
impl From<EntryClass> for String {
    fn from(c: EntryClass) -> String {
        String(c as u8)
    }
}
#[derive(Clone, Copy, Debug, PartialEq, Eq)]
pub struct PartialValue(pub u8);
impl From<EntryClass> for PartialValue {
    fn from(c: EntryClass) -> PartialValue {
        PartialValue(c as u8)
    }
}

#[derive(Clone, Copy, Debug, PartialEq, Eq, PartialOrd, Ord)]
pub struct Uuid(pub u8);
impl SmallKey for Uuid {
    const N: u8 = 4;
    fn idx(&self) -> u8 {
        self.0 % 4
    }
    fn table<'t>() -> &'t [Self]
    where
        Self: 't,
    {
        &[Uuid(0), Uuid(1), Uuid(2), Uuid(3)]
    }
}
/// the greatest built-in uuid; entry uuids 0..=UUID_ANONYMOUS are the system range
pub const UUID_ANONYMOUS: Uuid = Uuid(1);

pub struct LazyLock<T> {
    f: fn() -> T,
}
impl<T> LazyLock<T> {
    pub const fn new(f: fn() -> T) -> Self {
        LazyLock { f }
    }
}
impl<T> core::ops::Deref for LazyLock<T> {
    type Target = T;
    fn deref(&self) -> &T {
        std::boxed::Box::leak(std::boxed::Box::new((self.f)()))
    }
}

#[derive(Clone, Copy, Debug, PartialEq, Eq)]
pub enum AccessScope {
    ReadOnly,
    ReadWrite,
    Synchronise,
}
#[derive(Clone, Copy, Debug, PartialEq, Eq)]
pub enum InternalRole {
    System,
    Migration,
    AccountRequest,
    MessageQueue,
}
#[derive(Clone, Copy, Debug)]
pub struct IdentUser {
    pub uuid: Uuid,
    pub memberof: Option<BTreeSet<Uuid>>,
}
#[derive(Clone, Copy, Debug)]
pub enum IdentType {
    User(IdentUser),
    Synch(Uuid),
    Internal(InternalRole),
}
pub struct Identity {
    pub origin: IdentType,
    pub scope: AccessScope,
}
impl Identity {
    pub fn access_scope(&self) -> AccessScope {
        self.scope
    }
    pub fn get_uuid(&self) -> Uuid {
        match &self.origin {
            IdentType::Internal(_) => Uuid(0),
            IdentType::User(u) => u.uuid,
            IdentType::Synch(u) => *u,
        }
    }
    pub fn get_memberof(&self) -> Option<&BTreeSet<Uuid>> {
        match &self.origin {
            IdentType::Internal(_) | IdentType::Synch(_) => None,
            IdentType::User(u) => u.memberof.as_ref(),
        }
    }
}
impl core::fmt::Display for Identity {
    fn fmt(&self, _f: &mut core::fmt::Formatter<'_>) -> core::fmt::Result {
        Ok(())
    }
}

/// value set of the class attribute, as far as `contains` goes
#[derive(Clone, Copy)]
pub struct ClassVs {
    pub set: BTreeSet<String>,
}
impl ClassVs {
    pub fn contains(&self, pv: &PartialValue) -> bool {
        self.set.contains(&String(pv.0))
    }
}
pub struct EntrySealedCommitted {
    pub uuid: Uuid,
    pub classes: Option<BTreeSet<String>>,
    pub class_vs: Option<ClassVs>,
    pub managed_by: Option<BTreeSet<Uuid>>,
    pub sync_parent: Option<Uuid>,
    /// for each profile i: does its target filter match this entry (symbolic)
    pub target_match: [bool; 2],
}
pub struct FilterRef(pub usize);
impl EntrySealedCommitted {
    pub fn get_uuid(&self) -> Uuid {
        self.uuid
    }
    pub fn get_ava_as_iutf8(&self, a: Attribute) -> Option<&BTreeSet<String>> {
        match a {
            Attribute::Class => self.classes.as_ref(),
            _ => None,
        }
    }
    pub fn get_ava_set(&self, a: Attribute) -> Option<&ClassVs> {
        match a {
            Attribute::Class => self.class_vs.as_ref(),
            _ => None,
        }
    }
    pub fn get_ava_refer(&self, a: Attribute) -> Option<&BTreeSet<Uuid>> {
        match a {
            Attribute::EntryManagedBy => self.managed_by.as_ref(),
            _ => None,
        }
    }
    pub fn get_ava_single_refer(&self, a: Attribute) -> Option<Uuid> {
        match a {
            Attribute::SyncParentUuid => self.sync_parent,
            _ => None,
        }
    }
    pub fn entry_match_no_index(&self, f: &FilterRef) -> bool {
        self.target_match[f.0 % 2]
    }
    pub fn get_display_id(&self) -> u8 {
        0
    }
}

pub struct AcpName;
impl core::fmt::Display for AcpName {
    fn fmt(&self, _f: &mut core::fmt::Formatter<'_>) -> core::fmt::Result {
        Ok(())
    }
}
pub struct AccessControlProfileInner {
    pub name: AcpName,
}
pub struct AccessControlProfile {
    pub acp: AccessControlProfileInner,
}
/// grant lists: short fixed lists with the iterator API the code uses
#[derive(Clone, Copy)]
pub struct List<T: Copy> {
    pub len: usize,
    pub items: [T; 2],
}
impl<T: Copy> List<T> {
    pub fn iter(&self) -> core::slice::Iter<'_, T> {
        self.items[..self.len].iter()
    }
}
pub struct AccessControlModify {
    pub acp: AccessControlProfileInner,
    pub presattrs: List<Attribute>,
    pub remattrs: List<Attribute>,
    pub pres_classes: List<AttrString>,
    pub rem_classes: List<AttrString>,
}
pub enum AccessControlTargetCondition {
    Scope(FilterRef),
}
pub struct AccessControlModifyResolved<'a> {
    pub acp: &'a AccessControlModify,
    pub receiver_condition: AccessControlReceiverCondition,
    pub target_condition: AccessControlTargetCondition,
}

/// hashbrown::HashMap<Uuid, BTreeSet<Attribute>> of sync agreements: at most one agreement
pub struct HashMap<K, V> {
    pub one: Option<(K, V)>,
}
impl<K: PartialEq, V> HashMap<K, V> {
    pub fn get(&self, k: &K) -> Option<&V> {
        match &self.one {
            Some((kk, v)) if kk == k => Some(v),
            _ => None,
        }
    }
}

// migration tables: stubs (the Migration identity is outside the claim)
pub static MIGRATION_ENTRY_CLASSES: LazyLock<BTreeSet<String>> = LazyLock::new(|| BTreeSet::default());
pub static MIGRATION_IGNORE_CLASSES: LazyLock<BTreeSet<String>> = LazyLock::new(|| BTreeSet::default());
pub fn migration_entry_attrs(_c: &BTreeSet<String>) -> (BTreeSet<Attribute>, BTreeSet<&'static str>) {
    (BTreeSet::default(), BTreeSet::default())
}

pub mod access {
    use super::*;
    include!("slice_types.rs");
    include!("slice_fns.rs");
}
pub use access::*;

#[cfg(kani)]
mod harness;
