//! K-slice crate for C24 (write decision per entry).  Generated on every run from /repo, text
//! unchanged:
//!   slice_types.rs  modify.rs :: enum Modify;  server/access/modify.rs :: enum ModifyResult
//!   slice_fns.rs    server/access/mod.rs :: AccessControlsTransaction::modify_allow_operation_per_entry
//! Models: `apply_modify_access` (what the access control profiles and the protection rules
//! leave allowed for this identity and entry) is an ORACLE returning an arbitrary result -- the
//! property's "granted by a matching profile"; attribute and class sets as sorted arrays;
//! class names as &'static str wrappers; empty logging macros.
#![allow(dead_code, unused_imports, unused_variables, unused_macros, static_mut_refs)]

use std::sync::Arc;

macro_rules! debug { ($($t:tt)*) => { () }; }
macro_rules! error { ($($t:tt)*) => { () }; }
macro_rules! security_access { ($($t:tt)*) => { () }; }
macro_rules! security_error { ($($t:tt)*) => { () }; }

include!("/verif/models/shim/bitset.rs");

/// class vocabulary (one-letter names): index <-> text
pub const CLASS_WORDS: [&str; 3] = ["g", "p", "r"];
fn word_idx(s: &str) -> u8 {
    if s == "g" {
        0
    } else if s == "p" {
        1
    } else {
        2
    }
}
impl<'a> SmallKey for &'a str {
    const N: u8 = 3;
    fn idx(&self) -> u8 {
        word_idx(self)
    }
    fn table<'t>() -> &'t [Self]
    where
        Self: 't,
    {
        &CLASS_WORDS
    }
}

#[derive(Clone, Copy, Debug, PartialEq, Eq, PartialOrd, Ord)]
pub enum Attribute {
    Class,
    Name,
    DisplayName,
    Mail,
}
impl AsRef<Attribute> for Attribute {
    fn as_ref(&self) -> &Attribute {
        self
    }
}
impl SmallKey for Attribute {
    const N: u8 = 4;
    fn idx(&self) -> u8 {
        *self as u8
    }
    fn table<'t>() -> &'t [Self]
    where
        Self: 't,
    {
        &[Attribute::Class, Attribute::Name, Attribute::DisplayName, Attribute::Mail]
    }
}
impl PartialEq<Attribute> for &Attribute {
    fn eq(&self, o: &Attribute) -> bool {
        **self == *o
    }
}

/// iutf8 strings as static text (class names come from a fixed vocabulary)
#[derive(Clone, Copy, Debug, PartialEq, Eq, PartialOrd, Ord)]
pub struct String(pub &'static str);
impl String {
    pub fn as_str(&self) -> &'static str {
        self.0
    }
}
impl SmallKey for String {
    const N: u8 = 3;
    fn idx(&self) -> u8 {
        word_idx(self.0)
    }
    fn table<'t>() -> &'t [Self]
    where
        Self: 't,
    {
        &[String("g"), String("p"), String("r")]
    }
}

#[derive(Clone, Copy, Debug, PartialEq, Eq)]
pub struct Value(pub Option<&'static str>);
impl Value {
    pub fn to_str(&self) -> Option<&'static str> {
        self.0
    }
}
#[derive(Clone, Copy, Debug, PartialEq, Eq)]
pub struct PartialValue(pub Option<&'static str>);
impl PartialValue {
    pub fn to_str(&self) -> Option<&'static str> {
        self.0
    }
}
#[derive(Clone, Copy, Debug)]
pub struct ValueSet {
    pub iutf8: Option<BTreeSet<String>>,
}
impl ValueSet {
    pub fn as_iutf8_set(&self) -> Option<&BTreeSet<String>> {
        self.iutf8.as_ref()
    }
}

pub struct ModifyValid;
pub struct ModifyList<V> {
    pub len: usize,
    pub mods: [Modify; 2],
    pub _p: core::marker::PhantomData<V>,
}
impl<V> ModifyList<V> {
    pub fn iter(&self) -> core::slice::Iter<'_, Modify> {
        self.mods[..self.len].iter()
    }
}

pub struct Identity;
pub struct AccessControlModifyResolved<'a>(pub core::marker::PhantomData<&'a ()>);
pub struct SyncAgreements;
pub struct EntrySealedCommitted {
    pub classes: Option<BTreeSet<String>>,
}
impl EntrySealedCommitted {
    pub fn get_ava_as_iutf8(&self, a: Attribute) -> Option<&BTreeSet<String>> {
        match a {
            Attribute::Class => self.classes.as_ref(),
            _ => None,
        }
    }
    pub fn get_display_id(&self) -> u8 {
        0
    }
}

/// the sliced items carry `pub(super)` visibility: give them a parent module
pub mod access {
    use super::*;
    include!("slice_types.rs");
}
pub use access::*;
impl Copy for Modify {}

/// ORACLE: the outcome of evaluating the access control profiles and protection rules for this
/// identity and entry -- i.e. what is "granted".  The harness sets it to an arbitrary value.
pub static mut ORACLE_KIND: u8 = 0;
pub static mut ORACLE_PRES: Option<BTreeSet<Attribute>> = None;
pub static mut ORACLE_REM: Option<BTreeSet<Attribute>> = None;
pub static mut ORACLE_PRES_CLS: Option<BTreeSet<&'static str>> = None;
pub static mut ORACLE_REM_CLS: Option<BTreeSet<&'static str>> = None;
pub fn apply_modify_access<'a>(
    _ident: &Identity,
    _related_acp: &'a [AccessControlModifyResolved<'_>],
    _sync: &SyncAgreements,
    _entry: &Arc<EntrySealedCommitted>,
) -> ModifyResult<'a> {
    unsafe {
        match ORACLE_KIND {
            0 => ModifyResult::Deny,
            1 => ModifyResult::Grant,
            _ => ModifyResult::Allow {
                pres: ORACLE_PRES.unwrap_or_default(),
                rem: ORACLE_REM.unwrap_or_default(),
                pres_cls: ORACLE_PRES_CLS.unwrap_or_default(),
                rem_cls: ORACLE_REM_CLS.unwrap_or_default(),
            },
        }
    }
}

pub struct AccessControls {
    pub sync: SyncAgreements,
}
impl AccessControls {
    pub fn get_sync_agreements(&self) -> &SyncAgreements {
        &self.sync
    }
}

include!("slice_fns.rs");

#[cfg(kani)]
mod harness;
