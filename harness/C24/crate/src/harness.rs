use super::*;

macro_rules! check {
    ($c:expr, $m:literal) => {
        kani::assert($c, $m)
    };
}

const ATTRS: [Attribute; 4] = [Attribute::Class, Attribute::Name, Attribute::DisplayName, Attribute::Mail];
// one-letter class names keep the string comparisons inside the set model to one byte
const CLASSES: [&str; 3] = ["g", "p", "r"];

fn any_attr() -> Attribute {
    let k: usize = kani::any();
    kani::assume(k < 4);
    ATTRS[k]
}
fn any_class() -> Option<&'static str> {
    let k: usize = kani::any();
    kani::assume(k < 4);
    if k == 3 { None } else { Some(CLASSES[k]) }
}
fn attr_set(bits: u8) -> BTreeSet<Attribute> {
    BTreeSet::model_from_bits(bits as u64)
}
fn cls_set(bits: u8) -> BTreeSet<&'static str> {
    BTreeSet::model_from_bits(bits as u64)
}
fn str_set(bits: u8) -> BTreeSet<String> {
    BTreeSet::model_from_bits(bits as u64)
}
fn cls_bit(c: &str) -> u8 {
    if c == "g" { 1 } else if c == "p" { 2 } else { 4 }
}
fn attr_bit(a: Attribute) -> u8 {
    1 << (a as u8)
}

struct Req {
    m: Modify,
    /// for Set(class, ..): the requested class set as a bitmask
    set_bits: u8,
}
fn any_modify() -> Req {
    let k: u8 = kani::any();
    kani::assume(k < 5);
    let a = any_attr();
    let set_bits: u8 = kani::any();
    kani::assume(set_bits < 8);
    let m = match k {
        0 => Modify::Present(a, Value(any_class())),
        1 => Modify::Removed(a, PartialValue(any_class())),
        2 => Modify::Purged(a),
        3 => Modify::Assert(a, PartialValue(any_class())),
        _ => Modify::Set(a, ValueSet { iutf8: if kani::any() { Some(str_set(set_bits)) } else { None } }),
    };
    Req { m, set_bits }
}

/// A modification is allowed only if every attribute and class it adds or removes is in the
/// granted sets (or the identity holds an unconditional grant), it changes something, and it
/// does not purge the class attribute.
#[kani::proof]
#[kani::unwind(8)]
fn c24_modify_needs_matching_grants() {
    let r1 = any_modify();
    let r2 = any_modify();
    let len: usize = kani::any();
    kani::assume(len <= 2);
    let ml: ModifyList<ModifyValid> = ModifyList { len, mods: [r1.m, r2.m], _p: core::marker::PhantomData };
    let cur_bits: u8 = kani::any();
    kani::assume(cur_bits < 8);
    let has_class: bool = kani::any();
    let entry = Arc::new(EntrySealedCommitted { classes: if has_class { Some(str_set(cur_bits)) } else { None } });
    let kind: u8 = kani::any();
    kani::assume(kind < 3);
    let (gp, gr, gpc, grc): (u8, u8, u8, u8) = (kani::any(), kani::any(), kani::any(), kani::any());
    kani::assume(gp < 16 && gr < 16 && gpc < 8 && grc < 8);
    unsafe {
        ORACLE_KIND = kind;
        ORACLE_PRES = Some(attr_set(gp));
        ORACLE_REM = Some(attr_set(gr));
        ORACLE_PRES_CLS = Some(cls_set(gpc));
        ORACLE_REM_CLS = Some(cls_set(grc));
    }
    let ac = AccessControls { sync: SyncAgreements };
    let ok = ac.modify_allow_operation_per_entry(&Identity, &[], &entry, &ml);

    // ---- what the request adds / removes, from the property text
    let mut add_attrs = 0u8;
    let mut rem_attrs = 0u8;
    let mut add_cls = 0u8;
    let mut rem_cls = 0u8;
    let mut purges_class = false;
    let reqs = [&r1, &r2];
    let mut i = 0;
    while i < 2 {
        if i < len {
            match &reqs[i].m {
                Modify::Present(a, v) => {
                    add_attrs |= attr_bit(*a);
                    if *a == Attribute::Class {
                        if let Some(c) = v.0 {
                            add_cls |= cls_bit(c);
                        }
                    }
                }
                Modify::Removed(a, v) => {
                    rem_attrs |= attr_bit(*a);
                    if *a == Attribute::Class {
                        if let Some(c) = v.0 {
                            rem_cls |= cls_bit(c);
                        }
                    }
                }
                Modify::Purged(a) => {
                    rem_attrs |= attr_bit(*a);
                    if *a == Attribute::Class {
                        purges_class = true;
                    }
                }
                Modify::Assert(a, _) => {
                    add_attrs |= attr_bit(*a);
                }
                Modify::Set(a, vs) => {
                    // a set both adds and removes values of the attribute
                    add_attrs |= attr_bit(*a);
                    rem_attrs |= attr_bit(*a);
                    if *a == Attribute::Class && has_class && vs.iutf8.is_some() {
                        add_cls |= reqs[i].set_bits & !cur_bits;
                        rem_cls |= cur_bits & !reqs[i].set_bits;
                    }
                }
            }
        }
        i += 1;
    }
    if ok {
        check!(!purges_class, "C24: purging the class attribute is never allowed");
        check!(add_attrs != 0 || rem_attrs != 0, "C24: an empty modification is not allowed");
        check!(kind != 0, "C24: a denied identity/entry is never allowed to modify");
        if kind == 2 {
            check!(add_attrs & !gp == 0, "C24: every attribute the modification adds to must be granted for adding");
            check!(rem_attrs & !gr == 0, "C24: every attribute the modification removes from (remove, purge, or set) must be granted for removal");
            check!(add_cls & !gpc == 0, "C24: every class the modification adds must be granted");
            check!(rem_cls & !grc == 0, "C24: every class the modification removes must be granted");
        }
    }
    kani::cover!(ok && kind == 2 && len == 2, "allowed two-step modification under grants");
    kani::cover!(!ok && kind == 2 && rem_attrs & !gr != 0 && add_attrs & !gp == 0, "refused: removal not granted");
    kani::cover!(ok && kind == 2 && matches!(r1.m, Modify::Set(Attribute::Class, _)) && (add_cls != 0 || rem_cls != 0), "class set that changes classes, allowed");
    core::mem::forget(entry);
}

/// Reachability twin: must FAIL.
#[kani::proof]
#[kani::unwind(8)]
fn c24_twin_must_fail() {
    let r1 = any_modify();
    let ml: ModifyList<ModifyValid> = ModifyList { len: 1, mods: [r1.m, r1.m], _p: core::marker::PhantomData };
    let entry = Arc::new(EntrySealedCommitted { classes: None });
    unsafe {
        ORACLE_KIND = kani::any::<u8>() % 3;
    }
    let ac = AccessControls { sync: SyncAgreements };
    let ok = ac.modify_allow_operation_per_entry(&Identity, &[], &entry, &ml);
    check!(ok || !ok, "reach");
    core::mem::forget(entry);
    kani::assert(false, "twin: reachable");
}
