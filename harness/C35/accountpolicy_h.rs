// Kani harnesses for C35, injected as a child module of server/lib/src/idm/accountpolicy.rs.
use super::{AccountPolicy, ResolvedAccountPolicy};
use crate::constants::{MAXIMUM_AUTH_PRIVILEGE_EXPIRY, MAXIMUM_AUTH_SESSION_EXPIRY};
use crate::value::CredentialType;
use kanidm_lib_crypto::{PW_MAX_LENGTH_NIST, PW_MFA_MIN_LENGTH, PW_SFA_MIN_LENGTH_NIST};

macro_rules! check {
    ($c:expr, $m:literal) => {
        kani::assert($c, $m)
    };
}

fn any_credtype() -> CredentialType {
    let k: u8 = kani::any();
    kani::assume(k < 7);
    match k {
        0 => CredentialType::Any,
        1 => CredentialType::External,
        2 => CredentialType::Mfa,
        3 => CredentialType::Passkey,
        4 => CredentialType::AttestedPasskey,
        5 => CredentialType::AttestedResidentkey,
        _ => CredentialType::Invalid,
    }
}

fn any_opt_u64() -> Option<u64> {
    if kani::any() {
        Some(kani::any())
    } else {
        None
    }
}

fn any_opt_bool() -> Option<bool> {
    if kani::any() {
        Some(kani::any())
    } else {
        None
    }
}

fn any_policy() -> AccountPolicy {
    AccountPolicy {
        privilege_expiry: kani::any(),
        authsession_expiry: kani::any(),
        pw_min_length: kani::any(),
        credential_policy: any_credtype(),
        // CA-list intersection lives in webauthn-rs over X.509 data: outside the claim
        webauthn_att_ca_list: None,
        limit_search_max_filter_test: any_opt_u64(),
        limit_search_max_results: any_opt_u64(),
        allow_primary_cred_fallback: any_opt_bool(),
    }
}

fn same(a: &ResolvedAccountPolicy, b: &ResolvedAccountPolicy) -> bool {
    a.privilege_expiry == b.privilege_expiry
        && a.authsession_expiry == b.authsession_expiry
        && a.pw_min_length == b.pw_min_length
        && a.pw_max_length == b.pw_max_length
        && a.credential_policy == b.credential_policy
        && a.webauthn_att_ca_list.is_none() == b.webauthn_att_ca_list.is_none()
        && a.limit_search_max_filter_test == b.limit_search_max_filter_test
        && a.limit_search_max_results == b.limit_search_max_results
        && a.allow_primary_cred_fallback == b.allow_primary_cred_fallback
}

fn strict_wrt(r: &ResolvedAccountPolicy, p: &AccountPolicy) {
    check!(r.privilege_expiry <= p.privilege_expiry, "C35: privilege expiry at least as strict as each policy");
    check!(r.authsession_expiry <= p.authsession_expiry, "C35: session expiry at least as strict as each policy");
    check!(r.pw_min_length >= p.pw_min_length, "C35: minimum password length at least as strict as each policy");
    check!(r.credential_policy >= p.credential_policy, "C35: minimum credential type at least as strict as each policy");
}

fn global(r: &ResolvedAccountPolicy) {
    check!(r.privilege_expiry <= MAXIMUM_AUTH_PRIVILEGE_EXPIRY, "C35: privilege expiry never above the maximum");
    check!(r.authsession_expiry <= MAXIMUM_AUTH_SESSION_EXPIRY, "C35: session expiry never above the maximum");
    check!(r.pw_min_length >= PW_MFA_MIN_LENGTH, "C35: minimum length never below the MFA minimum");
    check!(r.pw_max_length == PW_MAX_LENGTH_NIST, "C35: maximum length is the NIST maximum");
    check!(
        r.credential_policy >= CredentialType::Mfa || r.pw_min_length >= PW_SFA_MIN_LENGTH_NIST,
        "C35: single-factor minimum length enforced whenever second factors are optional"
    );
}

/// order independence + strictness, 3 policies, all 6 orders
#[kani::proof]
#[kani::unwind(5)]
fn c35_fold3_all_orders() {
    let a = any_policy();
    let b = any_policy();
    let c = any_policy();
    let r0 = ResolvedAccountPolicy::fold_from([a.clone(), b.clone(), c.clone()].into_iter());
    let r1 = ResolvedAccountPolicy::fold_from([a.clone(), c.clone(), b.clone()].into_iter());
    let r2 = ResolvedAccountPolicy::fold_from([b.clone(), a.clone(), c.clone()].into_iter());
    let r3 = ResolvedAccountPolicy::fold_from([b.clone(), c.clone(), a.clone()].into_iter());
    let r4 = ResolvedAccountPolicy::fold_from([c.clone(), a.clone(), b.clone()].into_iter());
    let r5 = ResolvedAccountPolicy::fold_from([c.clone(), b.clone(), a.clone()].into_iter());
    check!(same(&r0, &r1), "C35: resolution is independent of the order of the groups");
    check!(same(&r0, &r2), "C35: resolution is independent of the order of the groups");
    check!(same(&r0, &r3), "C35: resolution is independent of the order of the groups");
    check!(same(&r0, &r4), "C35: resolution is independent of the order of the groups");
    check!(same(&r0, &r5), "C35: resolution is independent of the order of the groups");
    strict_wrt(&r0, &a);
    strict_wrt(&r0, &b);
    strict_wrt(&r0, &c);
    global(&r0);
    kani::cover!(r0.credential_policy < CredentialType::Mfa && r0.pw_min_length == PW_SFA_MIN_LENGTH_NIST, "SFA floor applied");
    kani::cover!(r0.credential_policy == CredentialType::Passkey && r0.pw_min_length > 20, "mfa policy, long pw");
    kani::cover!(r0.allow_primary_cred_fallback == Some(false) && a.allow_primary_cred_fallback == Some(true), "fallback vetoed");
    kani::cover!(r0.privilege_expiry < 3600 && r0.privilege_expiry == c.privilege_expiry && c.privilege_expiry < a.privilege_expiry, "priv expiry from c");
}

/// exactness on two policies: the result is the field-wise min / max / and with the defaults
#[kani::proof]
#[kani::unwind(4)]
fn c35_fold2_exact() {
    let a = any_policy();
    let b = any_policy();
    let r = ResolvedAccountPolicy::fold_from([a.clone(), b.clone()].into_iter());
    let pe = a.privilege_expiry.min(b.privilege_expiry).min(MAXIMUM_AUTH_PRIVILEGE_EXPIRY);
    let se = a.authsession_expiry.min(b.authsession_expiry).min(MAXIMUM_AUTH_SESSION_EXPIRY);
    let ct = a.credential_policy.max(b.credential_policy);
    let mut ml = a.pw_min_length.max(b.pw_min_length).max(PW_MFA_MIN_LENGTH);
    if ct < CredentialType::Mfa && ml < PW_SFA_MIN_LENGTH_NIST {
        ml = PW_SFA_MIN_LENGTH_NIST;
    }
    check!(r.privilege_expiry == pe, "C35: privilege expiry is the minimum");
    check!(r.authsession_expiry == se, "C35: session expiry is the minimum");
    check!(r.credential_policy == ct, "C35: credential type is the maximum");
    check!(r.pw_min_length == ml, "C35: minimum length is the maximum (with the SFA floor)");
    let fb = match (a.allow_primary_cred_fallback, b.allow_primary_cred_fallback) {
        (Some(x), Some(y)) => Some(x && y),
        (Some(x), None) | (None, Some(x)) => Some(x),
        (None, None) => None,
    };
    check!(r.allow_primary_cred_fallback == fb, "C35: fallback allowed only if every policy that speaks allows it");
    check!(r.webauthn_att_ca_list.is_none(), "C35: no CA list appears from nowhere");
    kani::cover!(fb == Some(false), "fallback denied");
    kani::cover!(ml == PW_SFA_MIN_LENGTH_NIST && a.pw_min_length < 15 && b.pw_min_length < 15, "floor");
}

/// no policies at all: the defaults
#[kani::proof]
#[kani::unwind(3)]
fn c35_fold0_defaults() {
    let r = ResolvedAccountPolicy::fold_from(core::iter::empty());
    global(&r);
    check!(r.privilege_expiry == MAXIMUM_AUTH_PRIVILEGE_EXPIRY && r.credential_policy == CredentialType::Any, "C35: defaults");
    check!(r.pw_min_length == PW_SFA_MIN_LENGTH_NIST, "C35: with no policy, second factors are optional so the SFA minimum applies");
    kani::cover!(r.authsession_expiry == u32::MAX, "default session expiry");
}

/// thorough: 4 policies, order independence against 3 generators of S4 (adjacent swaps) + strictness
#[kani::proof]
#[kani::unwind(6)]
fn c35_fold4_swaps() {
    let a = any_policy();
    let b = any_policy();
    let c = any_policy();
    let d = any_policy();
    let r0 = ResolvedAccountPolicy::fold_from([a.clone(), b.clone(), c.clone(), d.clone()].into_iter());
    let r1 = ResolvedAccountPolicy::fold_from([b.clone(), a.clone(), c.clone(), d.clone()].into_iter());
    let r2 = ResolvedAccountPolicy::fold_from([a.clone(), c.clone(), b.clone(), d.clone()].into_iter());
    let r3 = ResolvedAccountPolicy::fold_from([a.clone(), b.clone(), d.clone(), c.clone()].into_iter());
    let r4 = ResolvedAccountPolicy::fold_from([d.clone(), c.clone(), b.clone(), a.clone()].into_iter());
    check!(same(&r0, &r1) && same(&r0, &r2) && same(&r0, &r3) && same(&r0, &r4), "C35: resolution is independent of the order of the groups");
    strict_wrt(&r0, &a);
    strict_wrt(&r0, &b);
    strict_wrt(&r0, &c);
    strict_wrt(&r0, &d);
    global(&r0);
    kani::cover!(r0.pw_min_length == d.pw_min_length && d.pw_min_length > 100, "min length from d");
}

/// Reachability twin: must FAIL.
#[kani::proof]
#[kani::unwind(4)]
fn c35_twin_must_fail() {
    let a = any_policy();
    let b = any_policy();
    let r = ResolvedAccountPolicy::fold_from([a.clone(), b.clone()].into_iter());
    global(&r);
    kani::assert(false, "twin: reachable");
}
