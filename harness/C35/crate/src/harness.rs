use super::*;

macro_rules! check {
    ($c:expr, $m:literal) => {
        kani::assert($c, $m)
    };
}

fn any_credtype() -> CredentialType {
    let k: u8 = kani::any();
    kani::assume(k < 7);
    match k {
        0 => CredentialType::Any,
        1 => CredentialType::External,
        2 => CredentialType::Mfa,
        3 => CredentialType::Passkey,
        4 => CredentialType::AttestedPasskey,
        5 => CredentialType::AttestedResidentkey,
        _ => CredentialType::Invalid,
    }
}

fn any_policy() -> AccountPolicy {
    AccountPolicy {
        privilege_expiry: kani::any(),
        authsession_expiry: kani::any(),
        pw_min_length: kani::any(),
        credential_policy: any_credtype(),
        webauthn_att_ca_list: if kani::any() { Some(AttestationCaList(kani::any())) } else { None },
        limit_search_max_filter_test: if kani::any() { Some(kani::any()) } else { None },
        limit_search_max_results: if kani::any() { Some(kani::any()) } else { None },
        allow_primary_cred_fallback: if kani::any() { Some(kani::any()) } else { None },
    }
}

fn same(a: &ResolvedAccountPolicy, b: &ResolvedAccountPolicy) -> bool {
    a.privilege_expiry == b.privilege_expiry
        && a.authsession_expiry == b.authsession_expiry
        && a.pw_min_length == b.pw_min_length
        && a.pw_max_length == b.pw_max_length
        && a.credential_policy == b.credential_policy
        && a.webauthn_att_ca_list == b.webauthn_att_ca_list
        && a.limit_search_max_filter_test == b.limit_search_max_filter_test
        && a.limit_search_max_results == b.limit_search_max_results
        && a.allow_primary_cred_fallback == b.allow_primary_cred_fallback
}

fn trusts_only_common(r: &ResolvedAccountPolicy, p: &AccountPolicy) {
    if let Some(pl) = &p.webauthn_att_ca_list {
        match &r.webauthn_att_ca_list {
            Some(rl) => check!(rl.0 & !pl.0 == 0, "C35: the resolved policy trusts only attestation authorities trusted by every group that names any"),
            None => check!(false, "C35: a group's attestation requirement must not disappear"),
        }
    }
}

/// 3 policies, all 6 orders, CA lists included.
#[kani::proof]
#[kani::unwind(5)]
fn c35s_fold3_all_orders_with_ca() {
    let a = any_policy();
    let b = any_policy();
    let c = any_policy();
    let r0 = ResolvedAccountPolicy::fold_from([a.clone(), b.clone(), c.clone()].into_iter());
    let r1 = ResolvedAccountPolicy::fold_from([a.clone(), c.clone(), b.clone()].into_iter());
    let r2 = ResolvedAccountPolicy::fold_from([b.clone(), a.clone(), c.clone()].into_iter());
    let r3 = ResolvedAccountPolicy::fold_from([b.clone(), c.clone(), a.clone()].into_iter());
    let r4 = ResolvedAccountPolicy::fold_from([c.clone(), a.clone(), b.clone()].into_iter());
    let r5 = ResolvedAccountPolicy::fold_from([c.clone(), b.clone(), a.clone()].into_iter());
    check!(same(&r0, &r1) && same(&r0, &r2) && same(&r0, &r3) && same(&r0, &r4) && same(&r0, &r5), "C35: resolution is independent of the order of the groups");
    trusts_only_common(&r0, &a);
    trusts_only_common(&r0, &b);
    trusts_only_common(&r0, &c);
    let all_none = a.webauthn_att_ca_list.is_none() && b.webauthn_att_ca_list.is_none() && c.webauthn_att_ca_list.is_none();
    check!(all_none == r0.webauthn_att_ca_list.is_none(), "C35: an attestation list is present exactly when some group has one");
    // exactness: the intersection of the lists that are present
    let m = |p: &AccountPolicy| p.webauthn_att_ca_list.map(|l| l.0).unwrap_or(0xff);
    if !all_none {
        check!(r0.webauthn_att_ca_list == Some(AttestationCaList(m(&a) & m(&b) & m(&c))), "C35: trusted authorities are exactly those trusted by all");
    }
    kani::cover!(r0.webauthn_att_ca_list == Some(AttestationCaList(0)) && m(&a) & m(&b) == 0 && m(&c) != 0 && m(&c) != 0xff, "two disjoint lists then a third");
    kani::cover!(all_none, "no lists");
    kani::cover!(r0.webauthn_att_ca_list == Some(AttestationCaList(5)), "non-empty intersection");
}

/// Reachability twin: must FAIL.
#[kani::proof]
#[kani::unwind(5)]
fn c35s_twin_must_fail() {
    let a = any_policy();
    let b = any_policy();
    let r = ResolvedAccountPolicy::fold_from([a.clone(), b.clone()].into_iter());
    trusts_only_common(&r, &a);
    kani::assert(false, "twin: reachable");
}
