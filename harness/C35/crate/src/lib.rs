//! K-slice crate for C35 (attestation CA list part).  `slice.rs` is generated on every run from
//! /repo, text unchanged: idm/accountpolicy.rs :: struct AccountPolicy, struct
//! ResolvedAccountPolicy, ResolvedAccountPolicy::fold_from; value.rs :: enum CredentialType;
//! the five limit constants.  Model: webauthn_rs AttestationCaList as a set (bitmask) of trusted
//! (authority, device) pairs whose `intersection` keeps what both sides trust -- the documented
//! contract of webauthn-attestation-ca ("Retain only the CA's and devices that exist in self and
//! other"); its blanket-allow refinement and the X.509 data are outside.
#![allow(dead_code, unused_imports)]

use noop_derive::{Deserialize, Serialize, TryFromPrimitive};

#[derive(Clone, Copy, Debug, PartialEq, Eq)]
pub struct AttestationCaList(pub u8);
impl AttestationCaList {
    pub fn intersection(&mut self, other: &Self) {
        self.0 &= other.0;
    }
    pub fn union(&mut self, other: &Self) {
        self.0 |= other.0;
    }
    pub fn clear(&mut self) {
        self.0 = 0;
    }
    pub fn len(&self) -> usize {
        self.0.count_ones() as usize
    }
    pub fn is_empty(&self) -> bool {
        self.0 == 0
    }
}

include!("slice.rs");

#[cfg(kani)]
mod harness;
