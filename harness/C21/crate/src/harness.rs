use super::*;

macro_rules! check {
    ($c:expr, $m:literal) => {
        kani::assert($c, $m)
    };
}

/// reserved per https://systemd.io/UIDS-GIDS/ : system users, systemd-homed, dynamic service
/// users, nobody, and the 16-bit (uid_t)-1 sentinel.  Written from the standard, not from the
/// plugin's constants.
fn reserved(g: u32) -> bool {
    g <= 999 || (60001..=60577).contains(&g) || (61184..=65519).contains(&g) || g == 65534 || g == 65535
}

fn any_class() -> Option<EntryClass> {
    let k: u8 = kani::any();
    kani::assume(k < 4);
    match k {
        0 => Some(EntryClass::PosixAccount),
        1 => Some(EntryClass::PosixGroup),
        2 => Some(EntryClass::Person),
        _ => None,
    }
}

fn mk(class: Option<EntryClass>, uuid: Option<Uuid>, gid: Option<u32>) -> Entry<EntryInvalid, EntryNew> {
    Entry { class, uuid, gid, writes: 0, _v: core::marker::PhantomData }
}

fn is_posix(c: Option<EntryClass>) -> bool {
    matches!(c, Some(EntryClass::PosixAccount) | Some(EntryClass::PosixGroup))
}

/// Generated gid: deterministic in the uuid's last four bytes, inside [0x70000000, 0x7fffffff],
/// hence never reserved.  All 2^128 uuids.
#[kani::proof]
#[kani::unwind(20)]
fn c21_generated_gid() {
    let b: [u8; 16] = kani::any();
    let class = any_class();
    kani::assume(is_posix(class));
    let mut e = mk(class, Some(Uuid::from_bytes(b)), None);
    let r = apply_gidnumber(&mut e);
    check!(r.is_ok(), "C21: generation succeeds for a posix entry with a uuid");
    check!(e.gid.is_some() && e.writes == 1, "C21: a posix entry ends up with exactly one gid number");
    let g = e.gid.unwrap_or(0);
    let tail = u32::from_be_bytes([b[12], b[13], b[14], b[15]]);
    check!(g == (0x7000_0000 | (tail & 0x0fff_ffff)), "C21: generated gid is a deterministic function of the uuid (prefix 0x7 + low 28 bits of the last 4 bytes)");
    check!(g >= 0x7000_0000 && g <= 0x7fff_ffff, "C21: generated gid inside the allocated range");
    check!(!reserved(g), "C21: generated gid never in a reserved range");
    kani::cover!(tail == 0xffff_ffff, "all-ones tail");
    kani::cover!(tail == 0, "zero tail");
    kani::cover!(class == Some(EntryClass::PosixGroup) && tail == 0x8000_03e7, "group, tail with high bit");
}

/// uuid_to_gid_u32 reads exactly bytes 12..16, big endian.
#[kani::proof]
#[kani::unwind(20)]
fn c21_uuid_to_gid() {
    let b: [u8; 16] = kani::any();
    let g = uuid_to_gid_u32(Uuid::from_bytes(b));
    check!(g == u32::from_be_bytes([b[12], b[13], b[14], b[15]]), "C21: uuid_to_gid_u32 is the big-endian value of the last four uuid bytes");
    kani::cover!(g == 1000, "tail 1000");
    kani::cover!(g > 0x7fff_ffff, "high bit set");
}

/// User-supplied gid, all 2^32 values: accepted only when outside every reserved range;
/// rejected with the dedicated error and the entry left unchanged.
#[kani::proof]
#[kani::unwind(20)]
fn c21_supplied_gid() {
    let b: [u8; 16] = kani::any();
    let class = any_class();
    let has_uuid: bool = kani::any();
    let gid: u32 = kani::any();
    let mut e = mk(class, if has_uuid { Some(Uuid::from_bytes(b)) } else { None }, Some(gid));
    let r = apply_gidnumber(&mut e);
    check!(e.gid == Some(gid) && e.writes == 0, "C21: a supplied gid is never rewritten");
    match &r {
        Ok(()) => check!(!reserved(gid), "C21: a supplied gid inside a reserved range must be rejected"),
        Err(err) => check!(*err == OperationError::PL0001GidOverlapsSystemRange, "C21: rejection uses the gid-overlap error"),
    }
    // usability (one-directional on purpose for >= 2^31, which the plugin also refuses):
    if (1000..=60000).contains(&gid) || (0x7000_0000..=0x7fff_ffff).contains(&gid) {
        check!(r.is_ok(), "C21: the documented allowed ranges are accepted");
    }
    kani::cover!(r.is_ok() && gid == 1000, "lowest allowed");
    kani::cover!(r.is_err() && gid == 999, "highest system id refused");
    kani::cover!(r.is_err() && gid == 65534, "nobody refused");
    kani::cover!(r.is_err() && gid == 60001, "homed low refused");
    kani::cover!(r.is_ok() && gid == 65533, "unused B accepted");
    kani::cover!(r.is_err() && gid >= 0x8000_0000, "upper half refused");
    kani::cover!(r.is_err() && class == Some(EntryClass::Person), "checked for non-posix entries too");
}

/// Entries that are not posix and carry no gid are left alone; a posix entry without uuid is an
/// error, never a silently missing gid.
#[kani::proof]
#[kani::unwind(20)]
fn c21_other_paths() {
    let b: [u8; 16] = kani::any();
    let class = any_class();
    let has_uuid: bool = kani::any();
    let mut e = mk(class, if has_uuid { Some(Uuid::from_bytes(b)) } else { None }, None);
    let r = apply_gidnumber(&mut e);
    if is_posix(class) {
        if has_uuid {
            check!(r.is_ok() && e.gid.is_some(), "C21: posix entry gets a gid");
        } else {
            check!(r == Err(OperationError::InvalidEntryState) && e.gid.is_none(), "C21: posix entry without uuid is rejected");
        }
    } else {
        check!(r.is_ok() && e.gid.is_none() && e.writes == 0, "C21: no gid invented for a non-posix entry");
    }
    kani::cover!(is_posix(class) && !has_uuid, "posix without uuid");
    kani::cover!(!is_posix(class), "non posix");
}

/// Reachability twin: must FAIL.
#[kani::proof]
#[kani::unwind(20)]
fn c21_twin_must_fail() {
    let b: [u8; 16] = kani::any();
    let gid: u32 = kani::any();
    let mut e = mk(Some(EntryClass::PosixAccount), Some(Uuid::from_bytes(b)), Some(gid));
    let r = apply_gidnumber(&mut e);
    check!(r.is_ok() || r.is_err(), "reach");
    kani::assert(false, "twin: reachable");
}
