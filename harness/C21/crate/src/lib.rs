//! K-slice crate for C21.  `slice.rs` is generated on every run from /repo:
//!   server/lib/src/plugins/gidnumber.rs :: consts GID_*, fn apply_gidnumber   (text unchanged)
//!   server/lib/src/utils.rs             :: fn uuid_to_gid_u32                 (text unchanged)
//! Everything else in this file is the environment model: an entry with exactly the accessor
//! methods the plugin calls.
#![allow(dead_code, unused_macros, unused_imports, unused_variables)]

use std::iter::once;
pub use uuid::Uuid;

// ---- logging: empty bodies ---------------------------------------------------------------
macro_rules! admin_error { ($($t:tt)*) => { () }; }
macro_rules! admin_info { ($($t:tt)*) => { () }; }
macro_rules! error { ($($t:tt)*) => { () }; }

// ---- model types ---------------------------------------------------------------------------
#[derive(Clone, Copy, Debug, PartialEq, Eq)]
pub enum Attribute {
    Class,
    GidNumber,
    Uuid,
}
impl AsRef<Attribute> for Attribute {
    fn as_ref(&self) -> &Attribute {
        self
    }
}

#[derive(Clone, Copy, Debug, PartialEq, Eq)]
pub enum EntryClass {
    PosixGroup,
    PosixAccount,
    Person,
}

#[derive(Clone, Copy, Debug, PartialEq, Eq)]
pub enum PartialValue {
    Class(EntryClass),
}
impl From<EntryClass> for PartialValue {
    fn from(c: EntryClass) -> Self {
        PartialValue::Class(c)
    }
}

#[derive(Clone, Copy, Debug, PartialEq, Eq)]
pub enum Value {
    Uint32(u32),
}
impl Value {
    pub fn new_uint32(u: u32) -> Self {
        Value::Uint32(u)
    }
}

#[derive(Clone, Copy, Debug, PartialEq, Eq)]
pub enum OperationError {
    InvalidEntryState,
    PL0001GidOverlapsSystemRange,
}

pub struct EntryInvalid;
#[derive(Clone)]
pub struct EntryNew;

/// Model of kanidmd_lib::entry::Entry<EntryInvalid, T> restricted to the three attributes the
/// plugin reads or writes.  Contract of each accessor = the documented meaning of the real one.
pub struct Entry<V, S> {
    pub class: Option<EntryClass>,
    pub uuid: Option<Uuid>,
    pub gid: Option<u32>,
    /// ghost: number of writes performed through set_ava
    pub writes: u32,
    pub _v: core::marker::PhantomData<(V, S)>,
}

impl<V, S> Entry<V, S> {
    pub fn attribute_equality<A: AsRef<Attribute>>(&self, attr: A, value: &PartialValue) -> bool {
        match (attr.as_ref(), value) {
            (Attribute::Class, PartialValue::Class(c)) => self.class == Some(*c),
            _ => false,
        }
    }
    pub fn attribute_pres<A: AsRef<Attribute>>(&self, attr: A) -> bool {
        match attr.as_ref() {
            Attribute::Class => self.class.is_some(),
            Attribute::GidNumber => self.gid.is_some(),
            Attribute::Uuid => self.uuid.is_some(),
        }
    }
    pub fn get_uuid(&self) -> Option<Uuid> {
        self.uuid
    }
    pub fn get_ava_single_uint32<A: AsRef<Attribute>>(&self, attr: A) -> Option<u32> {
        match attr.as_ref() {
            Attribute::GidNumber => self.gid,
            _ => None,
        }
    }
    /// purge-and-set
    pub fn set_ava<T>(&mut self, attr: &Attribute, iter: T)
    where
        T: Clone + IntoIterator<Item = Value>,
    {
        let mut it = iter.into_iter();
        match (attr, it.next()) {
            (Attribute::GidNumber, Some(Value::Uint32(u))) => {
                self.gid = Some(u);
                self.writes += 1;
            }
            _ => {
                #[cfg(kani)]
                kani::assert(false, "model contract: the plugin only writes one Uint32 to gidnumber");
            }
        }
    }
}

include!("slice.rs");

#[cfg(kani)]
mod harness;
