//! K-slice crate for C43.  Generated on every run from /repo, text unchanged:
//!   slice.rs  unix_integration/pam_sparkle_common/src/pam/constants.rs :: enum PamResultCode
//!             unix_integration/pam_sparkle_common/src/pam/module.rs    :: type PamResult
//!             unix_integration/common/src/unix_proto.rs                :: enum PamAuthResponse,
//!                                                                         enum PamAuthRequest
//!             unix_integration/pam_sparkle_common/src/core.rs          :: trait PamHandler,
//!                       fn sm_authenticate_connected, fn sm_authenticate_fallback
//! Models: the resolver daemon client as a script of arbitrary replies; the shadow password
//! check as a symbolic boolean; String as an opaque id; Vec as a short fixed list; the local
//! `std` shim gives env::vars() no entries and thread::sleep no effect; empty logging macros.
#![allow(dead_code, unused_imports, unused_variables, unused_macros, unused_mut, static_mut_refs, unused_assignments, non_camel_case_types)]

use noop_derive::{Deserialize, Serialize};

macro_rules! debug { ($($t:tt)*) => { () }; }
macro_rules! error { ($($t:tt)*) => { () }; }
macro_rules! println { ($($t:tt)*) => { () }; }

/// `std` as seen by the sliced code
pub mod std {
    pub use ::std::*;
    pub mod env {
        pub fn vars() -> ::core::iter::Empty<(super::super::String, super::super::String)> {
            ::core::iter::empty()
        }
    }
    pub mod thread {
        pub fn sleep(_d: ::std::time::Duration) {}
    }
}
use ::std::time::Duration;

#[derive(Clone, Copy, Debug, PartialEq, Eq)]
pub struct String(pub u8);
impl String {
    pub fn as_str(&self) -> &'static str {
        ""
    }
}
impl ::core::fmt::Display for String {
    fn fmt(&self, _f: &mut ::core::fmt::Formatter<'_>) -> ::core::fmt::Result {
        Ok(())
    }
}
/// string literals handed to the handler (`Some("New PIN: ")`, `"Inputs did not match"`)
pub trait Text {}
impl Text for String {}
impl Text for &str {}

pub const VCAP: usize = 2;
#[derive(Clone, Copy, Debug)]
pub struct Vec<T: Copy> {
    pub len: usize,
    pub items: [T; VCAP],
}
impl<T: Copy> Vec<T> {
    pub fn into_iter(self) -> impl Iterator<Item = T> {
        self.items.into_iter().take(self.len)
    }
}

#[derive(Clone, Copy, Debug, PartialEq, PartialOrd)]
pub struct OffsetDateTime(pub i64);

#[derive(Clone, Copy, Debug)]
pub struct CryptPw {
    /// what the (unmodelled) hash comparison answers for the credential the user typed
    pub verifies: bool,
}
pub static mut CHECK_PW_CALLS: u8 = 0;
impl CryptPw {
    pub fn check_pw(&self, _cred: &str) -> bool {
        unsafe {
            CHECK_PW_CALLS += 1;
        }
        self.verifies
    }
}
#[derive(Clone, Copy, Debug)]
pub struct EtcUser {
    pub name: String,
}
#[derive(Clone, Copy, Debug)]
pub struct EtcShadow {
    pub name: String,
    pub password: CryptPw,
    pub epoch_expire_seconds: Option<OffsetDateTime>,
}

pub struct ModuleOptions {
    pub debug: bool,
    pub use_first_pass: bool,
    pub ignore_unknown_user: bool,
}

#[derive(Clone, Copy, Debug, PartialEq)]
pub struct DeviceAuthorizationResponse {
    pub expires_in: u32,
    pub interval: Option<u32>,
}
#[derive(Clone, Copy, Debug)]
pub struct PamServiceInfo {
    pub service: String,
}
#[derive(Clone, Copy, Debug)]
pub struct OperationError(pub u8);
impl ::core::fmt::Display for OperationError {
    fn fmt(&self, _f: &mut ::core::fmt::Formatter<'_>) -> ::core::fmt::Result {
        Ok(())
    }
}

include!("slice.rs");

#[derive(Debug)]
pub enum ClientRequest {
    PamAuthenticateInit { account_id: String, info: PamServiceInfo },
    PamAuthenticateStep { request: PamAuthRequest, session_id: u64 },
    PamAccountAllowed { account_id: String, info: PamServiceInfo },
}
#[derive(Debug)]
pub enum ClientResponse {
    SshKeys(u8),
    NssAccounts(u8),
    NssAccount(u8),
    NssGroups(u8),
    NssGroup(u8),
    PamStatus(Option<bool>),
    PamAuthenticateStepResponse { response: PamAuthResponse, session_id: u64 },
    ProviderStatus(u8),
    Ok,
    Error(OperationError),
}

pub const SCRIPT_LEN: usize = 4;
/// one scripted daemon reply, in a copyable encoding (kind 0 = transport error / closed socket)
#[derive(Clone, Copy)]
pub struct Reply {
    pub kind: u8,
    pub a: u32,
    pub b: u8,
}
/// The resolver daemon: the k-th call is answered by the k-th scripted reply (an arbitrary
/// Result<ClientResponse, _>), further calls fail like a closed socket.
pub struct DaemonClientBlocking;
pub static mut SCRIPT: [Reply; SCRIPT_LEN] = [Reply { kind: 0, a: 0, b: 0 }; SCRIPT_LEN];
pub static mut CALLS: usize = 0;
pub static mut LAST_REPLY_SUCCESS: bool = false;
pub const N_KINDS: u8 = 20;
impl DaemonClientBlocking {
    pub fn call_and_wait(&self, _req: ClientRequest, _timeout: Option<u64>) -> Result<ClientResponse, ()> {
        let (k, r) = unsafe {
            let k = CALLS;
            CALLS += 1;
            LAST_REPLY_SUCCESS = false;
            if k >= SCRIPT_LEN {
                return Err(());
            }
            (k, SCRIPT[k])
        };
        let sid = r.a as u64;
        let step = |response| Ok(ClientResponse::PamAuthenticateStepResponse { response, session_id: sid });
        match r.kind {
            0 => Err(()),
            1 => step(PamAuthResponse::Unknown),
            2 => {
                unsafe { LAST_REPLY_SUCCESS = true; }
                step(PamAuthResponse::Success)
            }
            3 => step(PamAuthResponse::Denied),
            4 => step(PamAuthResponse::Password),
            5 => step(PamAuthResponse::DeviceAuthorizationGrant { data: DeviceAuthorizationResponse { expires_in: r.a, interval: None } }),
            6 => step(PamAuthResponse::MFACode { msg: String(r.b) }),
            7 => step(PamAuthResponse::MFAPoll { msg: String(r.b), polling_interval: r.a }),
            8 => step(PamAuthResponse::MFAPollWait),
            9 => step(PamAuthResponse::SetupPin { msg: String(r.b) }),
            10 => step(PamAuthResponse::Pin),
            11 => Ok(ClientResponse::Error(OperationError(r.b))),
            12 => Ok(ClientResponse::Ok),
            13 => Ok(ClientResponse::SshKeys(r.b)),
            14 => Ok(ClientResponse::NssAccounts(r.b)),
            15 => Ok(ClientResponse::NssAccount(r.b)),
            16 => Ok(ClientResponse::NssGroups(r.b)),
            17 => Ok(ClientResponse::NssGroup(r.b)),
            18 => Ok(ClientResponse::PamStatus(if r.b == 0 { None } else { Some(r.b == 1) })),
            _ => Ok(ClientResponse::ProviderStatus(r.b)),
        }
    }
}

#[cfg(kani)]
mod harness;
