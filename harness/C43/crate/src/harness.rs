use super::*;
// the model Vec stays available as MVec; plain `Vec` / `vec!` here are std's, which is what
// Kani's generated concrete-playback tests expect
use super::Vec as MVec;
use ::std::vec::Vec;

macro_rules! check {
    ($c:expr, $m:literal) => {
        kani::assert($c, $m)
    };
}

fn any_err() -> PamResultCode {
    // the trait's contract: a handler error is a PAM error code, never PAM_SUCCESS
    let k: u8 = kani::any();
    kani::assume(k < 5);
    match k {
        0 => PamResultCode::PAM_CONV_ERR,
        1 => PamResultCode::PAM_AUTH_ERR,
        2 => PamResultCode::PAM_BUF_ERR,
        3 => PamResultCode::PAM_SYSTEM_ERR,
        _ => PamResultCode::PAM_ABORT,
    }
}

fn any_str() -> String {
    let v: u8 = kani::any();
    kani::assume(v < 3);
    String(v)
}

/// A PAM conversation whose every answer is arbitrary: Ok(value) or Err(non-success code).
struct Handler {
    prompts: core::cell::Cell<u8>,
}
impl Handler {
    fn opt_str(&self) -> PamResult<Option<String>> {
        let n = self.prompts.get();
        self.prompts.set(n + 1);
        // bound the PIN-confirmation loop: after 4 prompts the conversation fails
        if n >= 4 {
            return Err(PamResultCode::PAM_CONV_ERR);
        }
        let k: u8 = kani::any();
        kani::assume(k < 3);
        match k {
            0 => Ok(Some(any_str())),
            1 => Ok(None),
            _ => Err(any_err()),
        }
    }
    fn unit(&self) -> PamResult<()> {
        if kani::any() {
            Ok(())
        } else {
            Err(any_err())
        }
    }
}
impl PamHandler for Handler {
    fn account_id(&self) -> PamResult<String> {
        if kani::any() {
            Ok(any_str())
        } else {
            Err(any_err())
        }
    }
    fn service_info(&self) -> PamResult<PamServiceInfo> {
        if kani::any() {
            Ok(PamServiceInfo { service: any_str() })
        } else {
            Err(any_err())
        }
    }
    fn envlist(&self) -> PamResult<MVec<String>> {
        Ok(MVec { len: 0, items: [String(0); VCAP] })
    }
    fn set_env(&self, _value: &str) -> PamResult<()> {
        self.unit()
    }
    fn authtok(&self) -> PamResult<Option<String>> {
        self.opt_str()
    }
    fn message(&self, _prompt: &str) -> PamResult<()> {
        self.unit()
    }
    fn message_device_grant(&self, _data: &DeviceAuthorizationResponse) -> PamResult<()> {
        self.unit()
    }
    fn prompt_for_password(&self) -> PamResult<Option<String>> {
        self.opt_str()
    }
    fn prompt_for_pin(&self, _msg: Option<&str>) -> PamResult<Option<String>> {
        self.opt_str()
    }
    fn prompt_for_mfacode(&self) -> PamResult<Option<String>> {
        self.opt_str()
    }
}

fn any_opts() -> ModuleOptions {
    ModuleOptions { debug: kani::any(), use_first_pass: kani::any(), ignore_unknown_user: kani::any() }
}

fn sym_script(n: usize) {
    unsafe {
        CALLS = 0;
        LAST_REPLY_SUCCESS = false;
        let mut i = 0;
        while i < SCRIPT_LEN {
            if i < n {
                let kind: u8 = kani::any();
                kani::assume(kind < N_KINDS);
                SCRIPT[i] = Reply { kind, a: kani::any(), b: kani::any() };
            } else {
                SCRIPT[i] = Reply { kind: 0, a: 0, b: 0 };
            }
            i += 1;
        }
    }
}

/// Daemon reachable: success only when the daemon's LAST reply was an explicit Success.
fn connected(n: usize) {
    sym_script(n);
    let h = Handler { prompts: core::cell::Cell::new(0) };
    let opts = any_opts();
    let c = DaemonClientBlocking;
    let r = sm_authenticate_connected(&h, &opts, OffsetDateTime(kani::any()), &c);
    let (calls, last_ok) = unsafe { (CALLS, LAST_REPLY_SUCCESS) };
    if r == PamResultCode::PAM_SUCCESS {
        check!(calls >= 1 && last_ok, "C43: PAM_SUCCESS only when the resolver daemon explicitly reported success in its last reply");
    }
    if calls >= 1 && !last_ok {
        check!(r != PamResultCode::PAM_SUCCESS, "C43: every error, unknown user or unexpected reply yields a non-success result");
    }
    kani::cover!(r == PamResultCode::PAM_SUCCESS && calls == n && n > 1, "success after a multi-step exchange");
    kani::cover!(r == PamResultCode::PAM_AUTH_ERR && calls > SCRIPT_LEN.min(n), "daemon went away mid-exchange");
    kani::cover!(r == PamResultCode::PAM_CRED_INSUFFICIENT, "user gave no credential");
}

#[kani::proof]
#[kani::unwind(5)]
fn c43_connected_script_2() {
    connected(2);
}

#[kani::proof]
#[kani::unwind(5)]
fn c43_connected_script_3() {
    connected(3);
}

/// Daemon unreachable: success only for a known user whose shadow entry has not expired and whose
/// stored hash verifies the typed password.
#[kani::proof]
#[kani::unwind(8)]
fn c43_fallback() {
    unsafe {
        CHECK_PW_CALLS = 0;
    }
    let h = Handler { prompts: core::cell::Cell::new(0) };
    let opts = any_opts();
    let now = OffsetDateTime(kani::any());
    let ulen: usize = kani::any();
    let slen: usize = kani::any();
    kani::assume(ulen <= VCAP && slen <= VCAP);
    let users = MVec { len: ulen, items: [EtcUser { name: any_str() }, EtcUser { name: any_str() }] };
    let mk = || EtcShadow {
        name: any_str(),
        password: CryptPw { verifies: kani::any() },
        epoch_expire_seconds: if kani::any() { Some(OffsetDateTime(kani::any())) } else { None },
    };
    let shadow = MVec { len: slen, items: [mk(), mk()] };
    let r = sm_authenticate_fallback(&h, &opts, now, users, shadow);
    if r == PamResultCode::PAM_SUCCESS {
        // some account id the handler could have returned (0..3) names a user and a shadow entry
        let mut justified = false;
        let mut id = 0u8;
        while id < 3 {
            let mut u_found = false;
            let mut i = 0;
            while i < VCAP {
                if i < ulen && users.items[i].name == String(id) {
                    u_found = true;
                }
                i += 1;
            }
            // the FIRST shadow entry with that name is the one consulted
            let mut s_first: Option<EtcShadow> = None;
            let mut j = 0;
            while j < VCAP {
                if j < slen && shadow.items[j].name == String(id) && s_first.is_none() {
                    s_first = Some(shadow.items[j]);
                }
                j += 1;
            }
            if let (true, Some(s)) = (u_found, s_first) {
                let live = match s.epoch_expire_seconds {
                    Some(e) => now < e,
                    None => true,
                };
                if live && s.password.verifies {
                    justified = true;
                }
            }
            id += 1;
        }
        check!(justified, "C43: offline success only for a known user whose shadow entry is not expired and whose hash verifies the password");
        check!(unsafe { CHECK_PW_CALLS } == 1, "C43: the stored hash was actually consulted");
    }
    kani::cover!(r == PamResultCode::PAM_SUCCESS, "offline success");
    kani::cover!(r == PamResultCode::PAM_ACCT_EXPIRED, "expired");
    kani::cover!(r == PamResultCode::PAM_USER_UNKNOWN, "unknown user");
    kani::cover!(r == PamResultCode::PAM_AUTH_ERR, "wrong password");
}

/// Reachability twin: must FAIL.
#[kani::proof]
#[kani::unwind(5)]
fn c43_twin_must_fail() {
    sym_script(2);
    let h = Handler { prompts: core::cell::Cell::new(0) };
    let opts = any_opts();
    let c = DaemonClientBlocking;
    let r = sm_authenticate_connected(&h, &opts, OffsetDateTime(0), &c);
    check!(r == PamResultCode::PAM_SUCCESS || r != PamResultCode::PAM_SUCCESS, "reach");
    kani::assert(false, "twin: reachable");
}
