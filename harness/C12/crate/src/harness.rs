use super::*;

macro_rules! check {
    ($c:expr, $m:literal) => {
        kani::assert($c, $m)
    };
}

/// 0..=2 symbolic bytes
fn bytes() -> Vec<u8> {
    let n: u8 = kani::any();
    kani::assume(n <= 2);
    let a: u8 = kani::any();
    let b: u8 = kani::any();
    match n {
        0 => Vec::new(),
        1 => vec![a],
        _ => vec![a, b],
    }
}

/// one of three crypt strings (text content is opaque to the conversion)
fn text() -> String {
    let k: u8 = kani::any();
    kani::assume(k < 3);
    match k {
        0 => String::from("$5$rounds=5000$salt$hash"),
        1 => String::from("$6$s$h"),
        _ => String::new(),
    }
}

fn roundtrip(material: Kdf) {
    let p = Password { material };
    let db = p.to_dbpasswordv1();
    let back = Password::try_from(db.clone());
    check!(back.is_ok(), "C12: a stored password always loads");
    // structural identity (derived PartialEq) implies identical verification behaviour
    check!(back == Ok(p.clone()), "C12: a password reads back from storage as the same key-derivation material");
    // and the storage form is stable under a second round trip
    if let Ok(b) = back {
        check!(b.to_dbpasswordv1() == db, "C12: storage form is a fixed point of load-then-store");
    }
}

#[kani::proof]
#[kani::unwind(30)]
fn c12_pw_tpm_argon2id() {
    let m = Kdf::TPM_ARGON2ID { m_cost: kani::any(), t_cost: kani::any(), p_cost: kani::any(), version: kani::any(), salt: bytes(), key: bytes() };
    kani::cover!(true, "reachable");
    roundtrip(m);
}

#[kani::proof]
#[kani::unwind(30)]
fn c12_pw_argon2id() {
    let m = Kdf::ARGON2ID { m_cost: kani::any(), t_cost: kani::any(), p_cost: kani::any(), version: kani::any(), salt: bytes(), key: bytes() };
    kani::cover!(true, "reachable");
    roundtrip(m);
}

#[kani::proof]
#[kani::unwind(30)]
fn c12_pw_pbkdf2() {
    let m = Kdf::PBKDF2(kani::any(), bytes(), bytes());
    kani::cover!(true, "reachable");
    roundtrip(m);
}

#[kani::proof]
#[kani::unwind(30)]
fn c12_pw_pbkdf2_sha1() {
    let m = Kdf::PBKDF2_SHA1(kani::any(), bytes(), bytes());
    kani::cover!(true, "reachable");
    roundtrip(m);
}

#[kani::proof]
#[kani::unwind(30)]
fn c12_pw_pbkdf2_sha512() {
    let m = Kdf::PBKDF2_SHA512(kani::any(), bytes(), bytes());
    kani::cover!(true, "reachable");
    roundtrip(m);
}

#[kani::proof]
#[kani::unwind(30)]
fn c12_pw_sha1() {
    let m = Kdf::SHA1(bytes());
    kani::cover!(true, "reachable");
    roundtrip(m);
}

#[kani::proof]
#[kani::unwind(30)]
fn c12_pw_ssha1() {
    let m = Kdf::SSHA1(bytes(), bytes());
    kani::cover!(true, "reachable");
    roundtrip(m);
}

#[kani::proof]
#[kani::unwind(30)]
fn c12_pw_sha256() {
    let m = Kdf::SHA256(bytes());
    kani::cover!(true, "reachable");
    roundtrip(m);
}

#[kani::proof]
#[kani::unwind(30)]
fn c12_pw_ssha256() {
    let m = Kdf::SSHA256(bytes(), bytes());
    kani::cover!(true, "reachable");
    roundtrip(m);
}

#[kani::proof]
#[kani::unwind(30)]
fn c12_pw_sha512() {
    let m = Kdf::SHA512(bytes());
    kani::cover!(true, "reachable");
    roundtrip(m);
}

#[kani::proof]
#[kani::unwind(30)]
fn c12_pw_ssha512() {
    let m = Kdf::SSHA512(bytes(), bytes());
    kani::cover!(true, "reachable");
    roundtrip(m);
}

#[kani::proof]
#[kani::unwind(30)]
fn c12_pw_nt_md4() {
    let m = Kdf::NT_MD4(bytes());
    kani::cover!(true, "reachable");
    roundtrip(m);
}

#[kani::proof]
#[kani::unwind(30)]
fn c12_pw_crypt_md5() {
    let m = Kdf::CRYPT_MD5 { s: bytes(), h: bytes() };
    kani::cover!(true, "reachable");
    roundtrip(m);
}

#[kani::proof]
#[kani::unwind(30)]
fn c12_pw_crypt_sha256() {
    let m = Kdf::CRYPT_SHA256 { h: text() };
    kani::cover!(true, "reachable");
    roundtrip(m);
}

#[kani::proof]
#[kani::unwind(30)]
fn c12_pw_crypt_sha512() {
    let m = Kdf::CRYPT_SHA512 { h: text() };
    kani::cover!(true, "reachable");
    roundtrip(m);
}

/// Reachability twin: must FAIL.
#[kani::proof]
#[kani::unwind(30)]
fn c12_pw_twin_must_fail() {
    roundtrip(Kdf::SSHA1(bytes(), bytes()));
    kani::assert(false, "twin: reachable");
}
