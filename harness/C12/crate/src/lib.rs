//! K-slice crate for C12 (password storage round trip).  `slice.rs` is generated on every run
//! from /repo/libs/crypto/src/lib.rs: enum DbPasswordV1, enum Kdf, struct Password,
//! impl TryFrom<DbPasswordV1> for Password, Password::to_dbpasswordv1 -- text unchanged.
//! Model: Base64UrlSafeData = newtype over Vec<u8> with the two conversions the code uses
//! (its Base64 text encoding is a serde concern and outside the claim).
#![allow(dead_code, unused_imports, non_camel_case_types)]

use noop_derive::{Deserialize, Serialize};
use std::convert::TryFrom;

#[derive(Clone, Debug, PartialEq, Eq)]
pub struct Base64UrlSafeData(pub Vec<u8>);
impl From<Vec<u8>> for Base64UrlSafeData {
    fn from(v: Vec<u8>) -> Self {
        Base64UrlSafeData(v)
    }
}
impl From<Base64UrlSafeData> for Vec<u8> {
    fn from(v: Base64UrlSafeData) -> Self {
        v.0
    }
}

include!("slice.rs");

#[cfg(kani)]
mod harness;
