//! K-slice crate for C45.  `slice.rs` is generated on every run from
//! /repo/unix_integration/resolver_common/src/idprovider/kanidm.rs: the method
//! KanidmProvider::unix_user_authorise, text unchanged, inside an `impl KanidmProvider` shell.
//! Models: String as an opaque identifier shared by group names and the hyphenated text of
//! group uuids (so a group NAMED like another group's uuid is representable); BTreeSet as a
//! sorted array; tokio Mutex::lock as an immediately ready future; empty logging macros.
#![allow(dead_code, unused_imports, unused_variables, unused_macros)]

macro_rules! warn { ($($t:tt)*) => { () }; }
macro_rules! debug { ($($t:tt)*) => { () }; }

pub const MAP_CAP: usize = 6;
include!("/verif/models/shim/btreemap.rs");
include!("/verif/models/shim/btreeset.rs");

#[derive(Clone, Copy, Debug, PartialEq, Eq, PartialOrd, Ord)]
pub struct String(pub u8);
impl String {
    pub fn to_string(&self) -> String {
        *self
    }
}
impl core::fmt::Display for String {
    fn fmt(&self, _f: &mut core::fmt::Formatter<'_>) -> core::fmt::Result {
        Ok(())
    }
}

/// a uuid, identified with the identifier of its hyphenated text
#[derive(Clone, Copy, Debug, PartialEq, Eq)]
pub struct Uuid(pub u8);
impl Uuid {
    pub fn hyphenated(&self) -> String {
        String(self.0)
    }
}

#[derive(Clone, Copy, Debug)]
pub struct GroupToken {
    pub name: String,
    pub spn: String,
    pub uuid: Uuid,
    pub gidnumber: u32,
}

pub const MAX_GROUPS: usize = 3;
#[derive(Clone, Copy, Debug)]
pub struct GroupVec {
    pub len: usize,
    pub g: [GroupToken; MAX_GROUPS],
}
impl GroupVec {
    pub fn iter(&self) -> core::slice::Iter<'_, GroupToken> {
        self.g[..self.len].iter()
    }
}

#[derive(Clone, Copy, Debug)]
pub struct UserToken {
    pub name: String,
    pub spn: String,
    pub uuid: Uuid,
    pub groups: GroupVec,
    pub valid: bool,
}

#[derive(Clone, Copy, Debug, PartialEq, Eq)]
pub enum IdpError {
    Transport,
    ProviderUnauthorised,
    BadRequest,
    NotFound,
}

pub struct KanidmProviderInternal {
    pub pam_allow_groups: BTreeSet<String>,
}

/// tokio::sync::Mutex: lock() is a future that is ready at once in a single-task harness
pub struct Mutex<T> {
    v: T,
}
impl<T> Mutex<T> {
    pub fn new(v: T) -> Self {
        Mutex { v }
    }
    pub async fn lock(&self) -> &T {
        &self.v
    }
}

pub struct KanidmProvider {
    pub inner: Mutex<KanidmProviderInternal>,
}

include!("slice.rs");

#[cfg(kani)]
mod harness;
