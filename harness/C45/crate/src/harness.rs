use super::*;
use core::future::Future;
use core::pin::pin;
use core::task::{Context, Poll, Waker};

macro_rules! check {
    ($c:expr, $m:literal) => {
        kani::assert($c, $m)
    };
}

fn block_on<F: Future>(f: F) -> F::Output {
    let mut f = pin!(f);
    let mut cx = Context::from_waker(Waker::noop());
    let mut n = 0;
    loop {
        if let Poll::Ready(v) = f.as_mut().poll(&mut cx) {
            return v;
        }
        n += 1;
        kani::assert(n < 2, "harness: model futures are always ready");
    }
}

fn any_id() -> u8 {
    let v: u8 = kani::any();
    kani::assume(v < 6);
    v
}

fn any_group() -> GroupToken {
    GroupToken { name: String(any_id()), spn: String(any_id()), uuid: Uuid(any_id()), gidnumber: kani::any() }
}

/// an ARBITRARY allowed-login list with 0..=3 entries
fn any_allow() -> (BTreeSet<String>, [Option<String>; 3]) {
    let len: usize = kani::any();
    kani::assume(len <= 3);
    let e = [String(any_id()), String(any_id()), String(any_id())];
    let mut slots: [Option<(String, ())>; MAP_CAP] = [None; MAP_CAP];
    let mut seen = [None; 3];
    let mut i = 0;
    while i < 3 {
        if i < len {
            slots[i] = Some((e[i], ()));
            seen[i] = Some(e[i]);
        }
        i += 1;
    }
    let m = BTreeMap::model_from_raw(len, slots);
    kani::assume(m.model_wf());
    (BTreeSet::model_from_map(m), seen)
}

fn allowed(list: &[Option<String>; 3], s: String) -> bool {
    let mut r = false;
    let mut i = 0;
    while i < 3 {
        if list[i] == Some(s) {
            r = true;
        }
        i += 1;
    }
    r
}

#[kani::proof]
#[kani::unwind(8)]
fn c45_login_needs_allowed_group_and_valid_account() {
    let (set, list) = any_allow();
    let glen: usize = kani::any();
    kani::assume(glen <= MAX_GROUPS);
    let groups = GroupVec { len: glen, g: [any_group(), any_group(), any_group()] };
    let token = UserToken { name: String(any_id()), spn: String(any_id()), uuid: Uuid(any_id()), groups, valid: kani::any() };
    let p = KanidmProvider { inner: Mutex::new(KanidmProviderInternal { pam_allow_groups: set }) };
    let r = block_on(p.unix_user_authorise(&token));
    let mut member = false;
    let mut i = 0;
    while i < MAX_GROUPS {
        if i < glen {
            let g = groups.g[i];
            if allowed(&list, g.name) || allowed(&list, g.uuid.hyphenated()) {
                member = true;
            }
        }
        i += 1;
    }
    let want = token.valid && member;
    check!(r == Ok(Some(want)), "C45: login allowed exactly when the account is valid and a group name or uuid is in the allowed list");
    if list[0].is_none() {
        check!(r == Ok(Some(false)), "C45: an empty allowed-login list admits no directory users");
    }
    kani::cover!(r == Ok(Some(true)) && glen == 3, "allowed with three groups");
    kani::cover!(r == Ok(Some(false)) && member && !token.valid, "member but account not valid");
    kani::cover!(r == Ok(Some(false)) && token.valid && glen > 0 && list[0].is_some(), "valid but not a member");
    kani::cover!(r == Ok(Some(true)) && glen >= 1 && !allowed(&list, groups.g[0].name) && allowed(&list, groups.g[0].uuid.hyphenated()), "allowed by uuid only");
}

/// Contract of the set model used for the comparison.
#[kani::proof]
#[kani::unwind(8)]
fn c45_set_model_contract() {
    let mut a: BTreeSet<u8> = BTreeSet::default();
    let mut b: BTreeSet<u8> = BTreeSet::default();
    let (x, y, z, w): (u8, u8, u8, u8) = (kani::any(), kani::any(), kani::any(), kani::any());
    a.insert(x);
    a.insert(y);
    b.insert(z);
    b.insert(w);
    check!(a.model_wf() && b.model_wf(), "set model: sorted, no duplicates");
    let n = a.intersection(&b).count();
    let mut want = 0;
    if x == z || x == w {
        want += 1;
    }
    if y != x && (y == z || y == w) {
        want += 1;
    }
    check!(n == want, "set model: intersection yields exactly the common elements");
    check!(a.contains(&x) && a.contains(&y) && (a.contains(&z) == (z == x || z == y)), "set model: contains");
    kani::cover!(n == 2, "two common");
    kani::cover!(n == 0, "disjoint");
}

/// Reachability twin: must FAIL.
#[kani::proof]
#[kani::unwind(8)]
fn c45_twin_must_fail() {
    let (set, list) = any_allow();
    let groups = GroupVec { len: 1, g: [any_group(), any_group(), any_group()] };
    let token = UserToken { name: String(0), spn: String(0), uuid: Uuid(0), groups, valid: kani::any() };
    let p = KanidmProvider { inner: Mutex::new(KanidmProviderInternal { pam_allow_groups: set }) };
    let r = block_on(p.unix_user_authorise(&token));
    check!(r.is_ok(), "reach");
    kani::assert(false, "twin: reachable");
}
