use super::*;
use core::future::Future;
use core::pin::pin;
use core::task::{Context, Poll, Waker};

macro_rules! check {
    ($c:expr, $m:literal) => {
        kani::assert($c, $m)
    };
}

/// every future here is ready at once (the client model answers immediately)
fn block_on<F: Future>(f: F) -> F::Output {
    let mut f = pin!(f);
    let mut cx = Context::from_waker(Waker::noop());
    let mut n = 0;
    loop {
        if let Poll::Ready(v) = f.as_mut().poll(&mut cx) {
            return v;
        }
        n += 1;
        kani::assert(n < 2, "harness: model futures are always ready");
    }
}

/// identifiers from a 6-symbol alphabet (so that collisions between names, uuids and
/// configured keys are representable)
fn any_id() -> String {
    let v: u32 = kani::any();
    kani::assume(v < 6);
    String { kind: 0, val: v }
}

fn any_group() -> Group {
    Group { spn: any_id(), uuid: any_id() }
}

struct World {
    required: [Option<String>; 3],
    maps: [Option<(String, u32)>; 3],
    default_vlan: u32,
    groups: GroupList,
    secret: String,
}

/// an ARBITRARY well-formed map with 0..=3 entries whose keys are identifiers
fn any_map<V: Copy>(mk: impl Fn() -> V) -> (SortedMap<String, V>, [Option<(String, V)>; 3]) {
    let len: usize = kani::any();
    kani::assume(len <= 3);
    let e = [(any_id(), mk()), (any_id(), mk()), (any_id(), mk())];
    let mut slots: [Option<(String, V)>; MAP_CAP] = [None; MAP_CAP];
    let mut seen = [None; 3];
    let mut i = 0;
    while i < 3 {
        if i < len {
            slots[i] = Some(e[i]);
            seen[i] = Some(e[i]);
        }
        i += 1;
    }
    let m = SortedMap::model_from_raw(len, slots);
    kani::assume(m.model_wf());
    (m, seen)
}

fn world() -> (World, Module) {
    let (rm, rseen) = any_map(|| ());
    let required_groups = BTreeSet::model_from_map(rm);
    let required = [rseen[0].map(|x| x.0), rseen[1].map(|x| x.0), rseen[2].map(|x| x.0)];
    let (vm, vseen) = any_map(|| kani::any::<u32>());
    let mut group_configs: SortedMap<String, GroupConfig> = SortedMap::default();
    // same keys, GroupConfig values (keys arrive in ascending order: appends only)
    let mut maps = [None; 3];
    let mut i = 0;
    while i < 3 {
        if let Some((k, v)) = vseen[i] {
            maps[i] = Some((k, v));
            group_configs.insert(k, GroupConfig { vlan: Vlan(v), reply_attributes: BTreeMap::default() });
        }
        i += 1;
    }
    let default_vlan: u32 = kani::any();
    let len: usize = kani::any();
    kani::assume(len <= MAX_GROUPS);
    let groups = GroupList { len, g: [any_group(), any_group(), any_group()] };
    let secret = String { kind: 0, val: 1000 };
    let tok = RadiusAuthToken { name: any_id(), displayname: any_id(), uuid: any_id(), secret, groups };
    let rk: u8 = kani::any();
    kani::assume(rk < 4);
    let reply = match rk {
        0 => Ok(tok),
        1 => Err(ClientError::Http(StatusCode(404), None, any_id())),
        2 => Err(ClientError::Http(StatusCode(kani::any()), None, any_id())),
        _ => Err(ClientError::Transport),
    };
    let m = Module {
        cfg: KanidmRadiusConfig { radius_default_vlan: Vlan(default_vlan) },
        required_groups,
        group_configs,
        client: KanidmClient { reply },
    };
    (World { required, maps, default_vlan, groups, secret }, m)
}

fn in_required(w: &World, id: String) -> bool {
    let mut r = false;
    let mut i = 0;
    while i < 3 {
        if let Some(x) = w.required[i] {
            if x == id {
                r = true;
            }
        }
        i += 1;
    }
    r
}

fn mapped(w: &World, spn: String) -> Option<u32> {
    let mut r = None;
    let mut i = 0;
    while i < 3 {
        if let Some((k, v)) = w.maps[i] {
            if k == spn {
                r = Some(v);
            }
        }
        i += 1;
    }
    r
}

#[kani::proof]
#[kani::unwind(6)]
fn c46_secret_only_for_members_and_vlan() {
    let (w, m) = world();
    let has_user: bool = kani::any();
    let req = AuthRequest {
        tls_san_dn_cn: None,
        tls_cn: None,
        user_name: if has_user { Some("u") } else { None },
        phantom: core::marker::PhantomData,
    };
    let token_ok = m.client.reply.is_ok();
    let r = block_on(m.authorise(req));
    // reference: membership by uuid or spn of at least one user group
    let mut member = false;
    let mut want_vlan = w.default_vlan;
    let mut i = 0;
    while i < MAX_GROUPS {
        if i < w.groups.len {
            let g = w.groups.g[i];
            if in_required(&w, g.uuid) || in_required(&w, g.spn) {
                member = true;
            }
            if let Some(v) = mapped(&w, g.spn) {
                want_vlan = v; // last one wins
            }
        }
        i += 1;
    }
    match &r {
        Ok(resp) => {
            check!(has_user && token_ok, "C46: success only with a user id and a token from the server");
            check!(member, "C46: the network secret is released only to a member (by uuid or spn) of a required group");
            check!(resp.control.cleartext_password == Some(w.secret), "C46: the released secret is the user's own");
            check!(resp.reply.tunnel_private_group_id == Vlan(want_vlan).to_string(), "C46: VLAN is that of the last user group with a mapping, else the default");
        }
        Err(_) => {
            check!(!(has_user && token_ok && member), "C46: a member of a required group with a valid token is served");
        }
    }
    kani::cover!(r.is_ok() && w.groups.len == 3, "served, three groups");
    kani::cover!(r.is_err() && token_ok && has_user && w.groups.len >= 1, "rejected: not in a required group");
    kani::cover!(r.is_ok() && want_vlan == w.default_vlan && w.groups.len >= 1, "default vlan");
    kani::cover!(r.is_ok() && w.groups.len == 3 && mapped(&w, w.groups.g[0].spn).is_some() && mapped(&w, w.groups.g[2].spn).is_some() && mapped(&w, w.groups.g[0].spn) != mapped(&w, w.groups.g[2].spn), "two mappings: last wins");
    kani::cover!(!token_ok, "server error / not found");
}

/// Contract of the map model.
#[kani::proof]
#[kani::unwind(6)]
fn c46_map_model_contract() {
    let mut m: SortedMap<u8, u8> = SortedMap::default();
    let (k1, k2, k3, q): (u8, u8, u8, u8) = (kani::any(), kani::any(), kani::any(), kani::any());
    m.insert(k1, 1);
    m.insert(k2, 2);
    m.insert(k3, 3);
    check!(m.model_wf(), "map model: sorted, dense, no duplicate keys");
    let want = if q == k3 { Some(3u8) } else if q == k2 { Some(2) } else if q == k1 { Some(1) } else { None };
    check!(m.get(&q).copied() == want, "map model: get returns the last value inserted for the key");
    check!(m.contains_key(&q) == want.is_some(), "map model: contains_key agrees with get");
    kani::cover!(m.len() == 3, "three distinct");
    kani::cover!(m.len() == 1, "all same key");
}

/// Reachability twin: must FAIL.
#[kani::proof]
#[kani::unwind(6)]
fn c46_twin_must_fail() {
    let (w, m) = world();
    let req = AuthRequest { tls_san_dn_cn: None, tls_cn: None, user_name: Some("u"), phantom: core::marker::PhantomData };
    let r = block_on(m.authorise(req));
    check!(r.is_ok() || r.is_err(), "reach");
    kani::assert(false, "twin: reachable");
}
