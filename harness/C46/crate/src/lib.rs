//! K-slice crate for C46.  `slice.rs` is generated on every run from
//! /repo/rlm_kanidm/module/src/logic.rs (text unchanged): consts TUNNEL_*, enum AuthError,
//! and inside `impl Module { .. }` the methods authorise, user_in_required_groups,
//! resolve_group_configs, fetch_token.
//! Models (everything the methods touch but do not define):
//!   String            an opaque, copyable identifier (the code only clones, compares, looks
//!                     strings up and formats them into messages)
//!   BTreeSet/BTreeMap sorted fixed-capacity arrays (models/shim/btreemap.rs + a set on top)
//!   KanidmClient      the environment: idm_account_radius_token_get answers with an arbitrary
//!                     Result<RadiusAuthToken, ClientError> chosen by the harness
//!   AuthRequest, AuthResponse, GroupConfig, config: plain data carriers with the same fields
#![allow(dead_code, unused_imports, unused_variables, unused_macros, unused_mut, static_mut_refs)]

pub mod shim {
    pub const MAP_CAP: usize = 4;
    include!("/verif/models/shim/btreemap.rs");
    include!("/verif/models/shim/btreeset.rs");
}
pub use shim::BTreeMap as SortedMap;
pub use shim::BTreeSet;
pub use shim::MAP_CAP;

/// The only map the sliced code names itself is the bag of extra RADIUS reply attributes
/// (`BTreeMap::default()` + `extend`): its content is not part of the property, so it is a
/// counter of merged bags.  The lookup tables (required groups, group -> VLAN) use the
/// sorted-array model above under the name SortedMap.
#[derive(Clone, Copy, Debug, PartialEq, Eq)]
pub struct BTreeMap<K, V> {
    pub merged: u8,
    _p: core::marker::PhantomData<(K, V)>,
}
impl<K, V> Default for BTreeMap<K, V> {
    fn default() -> Self {
        BTreeMap { merged: 0, _p: core::marker::PhantomData }
    }
}
impl<K, V> BTreeMap<K, V> {
    pub fn extend(&mut self, o: BTreeMap<K, V>) {
        self.merged = self.merged.wrapping_add(1).wrapping_add(o.merged);
    }
}

/// opaque string: `kind` separates name spaces (0 = identifiers chosen by the harness,
/// 1 = decimal rendering of a number, 2 = formatted message)
#[derive(Clone, Copy, Debug, PartialEq, Eq, PartialOrd, Ord)]
pub struct String {
    pub kind: u8,
    pub val: u32,
}
impl String {
    pub fn as_str(&self) -> String {
        *self
    }
    pub fn to_string(&self) -> String {
        *self
    }
}
macro_rules! format {
    ($($t:tt)*) => {
        String { kind: 2, val: 0 }
    };
}

#[derive(Clone, Copy, Debug, PartialEq, Eq, PartialOrd, Ord, Default)]
pub struct Vlan(pub u32);
impl Vlan {
    pub fn to_string(&self) -> String {
        String { kind: 1, val: self.0 }
    }
}

pub type ReplyAttrs = BTreeMap<String, String>;

#[derive(Clone, Copy)]
pub struct GroupConfig {
    pub vlan: Vlan,
    pub reply_attributes: ReplyAttrs,
}

#[derive(Clone, Copy, Debug, PartialEq, Eq)]
pub struct Group {
    pub spn: String,
    pub uuid: String,
}

pub const MAX_GROUPS: usize = 3;
#[derive(Clone, Copy, Debug)]
pub struct GroupList {
    pub len: usize,
    pub g: [Group; MAX_GROUPS],
}
impl core::ops::Deref for GroupList {
    type Target = [Group];
    fn deref(&self) -> &[Group] {
        &self.g[..self.len]
    }
}

#[derive(Clone, Copy, Debug)]
pub struct RadiusAuthToken {
    pub name: String,
    pub displayname: String,
    pub uuid: String,
    pub secret: String,
    pub groups: GroupList,
}

#[derive(Clone, Copy, Debug, PartialEq, Eq)]
pub struct StatusCode(pub u16);
impl StatusCode {
    pub const NOT_FOUND: StatusCode = StatusCode(404);
}
#[derive(Clone, Copy, Debug)]
pub enum ClientError {
    Http(StatusCode, Option<u8>, String),
    Transport,
    AuthenticationFailed,
    Unauthorized,
}
#[derive(Clone, Copy, Debug)]
pub enum ModuleError {
    Http(String),
    Io(String),
    Config(String),
}

pub struct KanidmClient {
    pub reply: Result<RadiusAuthToken, ClientError>,
}
impl KanidmClient {
    pub async fn idm_account_radius_token_get(&self, _id: &str) -> Result<RadiusAuthToken, ClientError> {
        self.reply
    }
}

pub struct KanidmRadiusConfig {
    pub radius_default_vlan: Vlan,
}

pub struct Module {
    pub cfg: KanidmRadiusConfig,
    pub required_groups: BTreeSet<String>,
    pub group_configs: SortedMap<String, GroupConfig>,
    pub client: KanidmClient,
}

pub struct AuthRequest<'a> {
    pub tls_san_dn_cn: Option<&'a str>,
    pub tls_cn: Option<&'a str>,
    pub user_name: Option<&'a str>,
    pub phantom: core::marker::PhantomData<&'a ()>,
}
impl<'a> AuthRequest<'a> {
    // logging: empty bodies (messages are &str literals or formatted model strings)
    pub fn error<M>(&mut self, _m: M) {}
    pub fn info<M>(&mut self, _m: M) {}
    pub fn debug<M>(&mut self, _m: M) {}
    pub fn user_id(&self) -> Option<&str> {
        self.tls_san_dn_cn.or(self.tls_cn).or(self.user_name)
    }
}
impl core::fmt::Debug for AuthRequest<'_> {
    fn fmt(&self, _f: &mut core::fmt::Formatter<'_>) -> core::fmt::Result {
        Ok(())
    }
}

#[derive(Debug, Clone, Copy)]
pub struct ResponseReplyAttributes {
    pub user_name: String,
    pub message: String,
    pub tunnel_type: &'static str,
    pub tunnel_medium_type: &'static str,
    pub tunnel_private_group_id: String,
    pub reply_attributes: ReplyAttrs,
}
#[derive(Debug, Clone, Copy)]
pub struct ResponseControlAttributes {
    pub cleartext_password: Option<String>,
}
#[derive(Debug, Clone, Copy)]
pub struct AuthResponse {
    pub reply: ResponseReplyAttributes,
    pub control: ResponseControlAttributes,
}

include!("slice.rs");

#[cfg(kani)]
mod harness;
