use super::*;

macro_rules! check {
    ($c:expr, $m:literal) => {
        kani::assert($c, $m)
    };
}

fn any_duration() -> Duration {
    let s: u64 = kani::any();
    let n: u32 = kani::any();
    kani::assume(n < 1_000_000_000);
    Duration::new(s, n)
}

#[derive(Clone, Copy)]
struct Win {
    present: bool,
    min: Duration,
    max: Duration,
}

fn any_secs() -> Duration {
    Duration::new(kani::any(), 0)
}

fn any_win(nanos: bool) -> Win {
    let w = if nanos {
        Win { present: kani::any(), min: any_duration(), max: any_duration() }
    } else {
        Win { present: kani::any(), min: any_secs(), max: any_secs() }
    };
    kani::assume(w.min <= w.max);
    w
}

const N: usize = 3;

struct World {
    ids: [Uuid; N],
    c: [Win; N],
    s: [Win; N],
}

/// `n` of the N=3 slots may be present (the others are absent on both sides)
fn world_n(n: usize, nanos: bool) -> (World, BTreeMap<Uuid, ReplCidRange>, BTreeMap<Uuid, ReplCidRange>) {
    world_ids(n, nanos, false)
}

/// `fixed_ids`: server ids are the concrete values 10 < 20 < 30 (insertion in key order), which
/// removes the symbolic key comparisons inside the map model; otherwise three arbitrary distinct
/// ids in arbitrary relative order.
fn world_ids(n: usize, nanos: bool, fixed_ids: bool) -> (World, BTreeMap<Uuid, ReplCidRange>, BTreeMap<Uuid, ReplCidRange>) {
    let ids = if fixed_ids {
        [Uuid(10), Uuid(20), Uuid(30)]
    } else {
        [Uuid(kani::any()), Uuid(kani::any()), Uuid(kani::any())]
    };
    kani::assume(ids[0] != ids[1] && ids[0] != ids[2] && ids[1] != ids[2]);
    let mut c = [any_win(nanos), any_win(nanos), any_win(nanos)];
    let mut s = [any_win(nanos), any_win(nanos), any_win(nanos)];
    let mut k = n;
    while k < N {
        c[k].present = false;
        s[k].present = false;
        k += 1;
    }
    let mut cm = BTreeMap::default();
    let mut sm = BTreeMap::default();
    let mut i = 0;
    while i < N {
        if c[i].present {
            cm.insert(ids[i], ReplCidRange { ts_min: c[i].min, ts_max: c[i].max });
        }
        if s[i].present {
            sm.insert(ids[i], ReplCidRange { ts_min: s[i].min, ts_max: s[i].max });
        }
        i += 1;
    }
    (World { ids, c, s }, cm, sm)
}

fn world() -> (World, BTreeMap<Uuid, ReplCidRange>, BTreeMap<Uuid, ReplCidRange>) {
    world_n(3, true)
}

#[derive(PartialEq, Eq, Clone, Copy)]
enum Kind {
    Ok,
    Refresh,
    Unwilling,
    Critical,
    NoOverlap,
}

/// The decision table written from the property text.
fn spec_kind(w: &World) -> Kind {
    let mut common = false;
    let mut lag = false;
    let mut adv = false;
    let mut i = 0;
    while i < N {
        if w.c[i].present && w.s[i].present {
            common = true;
            if w.c[i].max < w.s[i].min {
                lag = true;
            }
            if w.s[i].max < w.c[i].min {
                adv = true;
            }
        }
        i += 1;
    }
    if !common {
        Kind::NoOverlap
    } else {
        match (lag, adv) {
            (false, false) => Kind::Ok,
            (true, false) => Kind::Refresh,
            (false, true) => Kind::Unwilling,
            (true, true) => Kind::Critical,
        }
    }
}

fn kind_of(r: &RangeDiffStatus) -> Kind {
    match r {
        RangeDiffStatus::Ok(_) => Kind::Ok,
        RangeDiffStatus::Refresh { .. } => Kind::Refresh,
        RangeDiffStatus::Unwilling { .. } => Kind::Unwilling,
        RangeDiffStatus::Critical { .. } => Kind::Critical,
        RangeDiffStatus::NoRUVOverlap => Kind::NoOverlap,
    }
}

/// exact content of the supplied ranges in the Ok case
fn check_ok_ranges(w: &World, diff: &BTreeMap<Uuid, ReplCidRange>) {
    let mut expect = 0usize;
    let mut i = 0;
    while i < N {
        let got = diff.get(&w.ids[i]);
        if w.s[i].present && w.c[i].present {
            if w.c[i].max < w.s[i].max {
                expect += 1;
                match got {
                    Some(r) => check!(r.ts_min == w.c[i].max && r.ts_max == w.s[i].max, "C10: supplied window is exactly [consumer newest, supplier newest]"),
                    None => check!(false, "C10: a server the consumer is behind on must be supplied"),
                }
            } else {
                check!(got.is_none(), "C10: nothing is supplied for a server the consumer is level with or ahead of");
            }
        } else if w.s[i].present {
            expect += 1;
            match got {
                Some(r) => check!(r.ts_min == Duration::ZERO && r.ts_max == w.s[i].max, "C10: a server the consumer has never seen is supplied from zero to the supplier's newest"),
                None => check!(false, "C10: a server the consumer has never seen must be supplied"),
            }
        } else {
            check!(got.is_none(), "C10: nothing is supplied for a server the supplier does not know");
        }
        i += 1;
    }
    check!(diff.len() == expect, "C10: no other ranges are supplied");
}

fn range_diff_case(n: usize, nanos: bool, fixed_ids: bool) {
    let (w, cm, sm) = world_ids(n, nanos, fixed_ids);
    let r = ReplicationUpdateVector::range_diff(&cm, &sm);
    let want = spec_kind(&w);
    check!(kind_of(&r) == want, "C10: supply / refresh / unwilling / critical / no-overlap decision");
    if let RangeDiffStatus::Ok(diff) = &r {
        check_ok_ranges(&w, diff);
    }
    kani::cover!(want == Kind::Ok, "ok");
    kani::cover!(want == Kind::Refresh, "refresh");
    kani::cover!(want == Kind::Unwilling, "unwilling");
    kani::cover!(want == Kind::Critical, "critical");
    kani::cover!(want == Kind::NoOverlap && cm.len() >= 1 && sm.len() >= 1, "no overlap with non-empty maps");
    kani::cover!(want == Kind::Ok && w.c[0].present && w.s[0].present && w.c[0].max == w.s[0].min, "touching windows still overlap");
}

#[kani::proof]
#[kani::unwind(6)]
fn c10_range_diff_3_servers() {
    range_diff_case(3, true, false);
}

#[kani::proof]
#[kani::unwind(6)]
fn c10_range_diff_3_servers_fixed_ids() {
    range_diff_case(3, true, true);
}

#[kani::proof]
#[kani::unwind(6)]
fn c10_range_diff_2_servers() {
    range_diff_case(2, true, false);
}

/// The supplier's mapping of the comparison result to what it answers the consumer.
#[kani::proof]
#[kani::unwind(6)]
fn c10_status_mapping() {
    let (w, cm, sm) = world_ids(3, true, true);
    let r = ReplicationUpdateVector::range_diff(&cm, &sm);
    let k = kind_of(&r);
    let ok_ranges = match &r {
        RangeDiffStatus::Ok(d) => Some(*d),
        _ => None,
    };
    let out = status_mapping(r, &cm, &sm);
    match k {
        Kind::Ok => {
            let d = ok_ranges.unwrap_or_default();
            check!(out == Ok(ReplIncrementalContext::Supply(d)), "C10: Ok => exactly the computed ranges go on to be supplied");
        }
        Kind::Refresh => check!(out == Ok(ReplIncrementalContext::RefreshRequired), "C10: consumer behind => refresh demanded"),
        Kind::Unwilling => check!(out == Ok(ReplIncrementalContext::UnwillingToSupply), "C10: consumer ahead => refused"),
        Kind::Critical => check!(out == Ok(ReplIncrementalContext::UnwillingToSupply), "C10: both => refused as critical"),
        Kind::NoOverlap => check!(out == Ok(ReplIncrementalContext::UnwillingToSupply), "C10: no common server => refused"),
    }
    kani::cover!(k == Kind::Refresh, "refresh");
    kani::cover!(k == Kind::Critical, "critical");
    kani::cover!(k == Kind::NoOverlap, "no overlap");
    kani::cover!(k == Kind::Ok, "ok");
}

/// Contract of the map model.
#[kani::proof]
#[kani::unwind(6)]
fn c10_map_model_contract() {
    let mut m: BTreeMap<Uuid, u8> = BTreeMap::default();
    let k1 = Uuid(kani::any());
    let k2 = Uuid(kani::any());
    let k3 = Uuid(kani::any());
    let q = Uuid(kani::any());
    m.insert(k1, 1);
    m.insert(k2, 2);
    m.insert(k3, 3);
    check!(m.model_wf(), "map model: sorted, dense, no duplicate keys");
    let want = if q == k3 { Some(3u8) } else if q == k2 { Some(2) } else if q == k1 { Some(1) } else { None };
    check!(m.get(&q).copied() == want, "map model: get returns the last value inserted for the key");
    let mut n = 0usize;
    let mut prev: Option<Uuid> = None;
    for (k, _) in m.iter() {
        if let Some(p) = prev {
            check!(p < *k, "map model: iteration in strictly ascending key order");
        }
        prev = Some(*k);
        n += 1;
    }
    check!(n == m.len(), "map model: iter yields len items");
    kani::cover!(m.len() == 3, "three distinct");
    kani::cover!(m.len() == 1, "all same key");
}

/// Reachability twin: must FAIL.
#[kani::proof]
#[kani::unwind(6)]
fn c10_twin_must_fail() {
    let (w, cm, sm) = world_n(2, false);
    let r = ReplicationUpdateVector::range_diff(&cm, &sm);
    check!(kind_of(&r) == spec_kind(&w), "reach");
    kani::assert(false, "twin: reachable");
}
