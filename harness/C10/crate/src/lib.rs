//! K-slice crate for C10.  Generated on every run from /repo (text unchanged):
//!   slice.rs      repl/proto.rs :: struct ReplCidRange; repl/ruv.rs :: enum RangeDiffStatus,
//!                 ReplicationUpdateVector::range_diff
//!   mapping.rs    repl/supplier.rs :: the `let ranges = match supply_ranges {..};` statement of
//!                 supplier_provide_changes, wrapped in a function shell
//! Models: BTreeMap (sorted fixed-capacity array), Uuid (an opaque ordered 16-bit id: the code
//! only copies, compares and uses it as a key), empty logging macros.
#![allow(dead_code, unused_imports, unused_variables, unused_macros)]

use noop_derive::{Deserialize, Serialize};
use std::time::Duration;

macro_rules! error { ($($t:tt)*) => { () }; }
macro_rules! debug { ($($t:tt)*) => { () }; }

pub const MAP_CAP: usize = 4;
include!("/verif/models/shim/btreemap.rs");

#[derive(Clone, Copy, Debug, PartialEq, Eq, PartialOrd, Ord)]
pub struct Uuid(pub u16);

pub struct ReplicationUpdateVector;

#[derive(Debug, PartialEq, Eq)]
pub enum ReplIncrementalContext {
    DomainMismatch,
    NoChangesAvailable,
    RefreshRequired,
    UnwillingToSupply,
    /// model-only: the code goes on to fetch and send these ranges
    Supply(BTreeMap<Uuid, ReplCidRange>),
}
#[derive(Debug, PartialEq, Eq)]
pub enum OperationError {
    Backend,
}

include!("slice.rs");

impl Clone for ReplCidRange {
    fn clone(&self) -> Self {
        ReplCidRange { ts_min: self.ts_min, ts_max: self.ts_max }
    }
}
impl Copy for ReplCidRange {}

include!("mapping.rs");

#[cfg(kani)]
mod harness;
