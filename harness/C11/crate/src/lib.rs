//! K-slice crate for C11.  Generated on every run from /repo, text unchanged:
//!   slice.rs   repl/cid.rs :: struct Cid;  value.rs :: enum SessionState + its PartialOrd / Ord
//!              impls;  valueset/session.rs :: const SESSION_MAXIMUM and, inside an
//!              `impl ValueSetSession` shell, the bodies of ValueSetSession::{trim,
//!              repl_merge_valueset, merge}
//! Models: BTreeMap as a sorted fixed-capacity array; Session reduced to the fields the merge
//! reads (state, issued_at) plus an opaque tag standing for the immutable rest; OffsetDateTime
//! as seconds; Uuid as an opaque ordered id; ValueSet as the one concrete set type.
#![allow(dead_code, unused_imports, unused_variables, unused_macros)]

use noop_derive::{Deserialize, Serialize};
use std::cmp::Ordering;
use std::time::Duration;

macro_rules! warn { ($($t:tt)*) => { () }; }
macro_rules! debug_assert { ($($t:tt)*) => { () }; }

pub const MAP_CAP: usize = 4;
include!("/verif/models/shim/btreemap.rs");

#[derive(Clone, Copy, Debug, PartialEq, Eq, PartialOrd, Ord, Hash)]
pub struct Uuid(pub u8);
#[derive(Clone, Copy, Debug, PartialEq, Eq, PartialOrd, Ord)]
pub struct OffsetDateTime(pub i64);

#[derive(Clone, Copy, Debug, PartialEq, Eq)]
pub enum OperationError {
    InvalidValueState,
}

/// value.rs Session, reduced: `tag` stands for label / issued_by / cred_id / scope / type_,
/// which the merge never looks at and which are fixed when the session is created.
#[derive(Clone, Copy, Debug, PartialEq, Eq)]
pub struct Session {
    pub state: SessionState,
    pub issued_at: OffsetDateTime,
    pub tag: u8,
}

include!("slice.rs");

impl Copy for Cid {}
impl core::fmt::Debug for Cid {
    fn fmt(&self, _f: &mut core::fmt::Formatter<'_>) -> core::fmt::Result {
        Ok(())
    }
}
impl Copy for SessionState {}

#[derive(Clone, Copy, Debug)]
pub struct ValueSetSession {
    pub map: BTreeMap<Uuid, Session>,
}
pub type ValueSet = Box<ValueSetSession>;
impl ValueSetSession {
    pub fn as_session_map(&self) -> Option<&BTreeMap<Uuid, Session>> {
        Some(&self.map)
    }
}

#[cfg(kani)]
mod harness;
