//! K-slice crate for C11.  Generated on every run from /repo, text unchanged:
//!   slice.rs   repl/cid.rs :: struct Cid;  value.rs :: enum SessionState + its PartialOrd / Ord
//!              impls;  valueset/session.rs :: const SESSION_MAXIMUM and, inside an
//!              `impl ValueSetSession` shell, the bodies of ValueSetSession::{trim,
//!              repl_merge_valueset, merge}
//! Models: BTreeMap as a sorted fixed-capacity array; Session reduced to the fields the merge
//! reads (state, issued_at) plus an opaque tag standing for the immutable rest; OffsetDateTime
//! as seconds; Uuid as an opaque ordered id; ValueSet as the one concrete set type.
#![allow(dead_code, unused_imports, unused_variables, unused_macros)]

use noop_derive::{Deserialize, Serialize};
use std::cmp::Ordering;
use std::time::Duration;

macro_rules! warn { ($($t:tt)*) => { () }; }
macro_rules! debug_assert { ($($t:tt)*) => { () }; }

pub const MAP_CAP: usize = 4;
include!("/verif/models/shim/btreemap.rs");

#[derive(Clone, Copy, Debug, PartialEq, Eq, PartialOrd, Ord, Hash)]
pub struct Uuid(pub u8);
#[derive(Clone, Copy, Debug, PartialEq, Eq, PartialOrd, Ord)]
pub struct OffsetDateTime(pub i64);

#[derive(Clone, Copy, Debug, PartialEq, Eq)]
pub enum OperationError {
    InvalidValueState,
}

/// value.rs Session, reduced: `tag` stands for label / issued_by / cred_id / scope / type_,
/// which the merge never looks at and which are fixed when the session is created.
#[derive(Clone, Copy, Debug, PartialEq, Eq)]
pub struct Session {
    pub state: SessionState,
    pub issued_at: OffsetDateTime,
    pub tag: u8,
}

include!("slice.rs");

impl Copy for Cid {}
impl core::fmt::Debug for Cid {
    fn fmt(&self, _f: &mut core::fmt::Formatter<'_>) -> core::fmt::Result {
        Ok(())
    }
}
impl Copy for SessionState {}

#[derive(Clone, Copy, Debug)]
pub struct ValueSetSession {
    pub map: BTreeMap<Uuid, Session>,
}
/// value.rs Oauth2Session, reduced like Session (parent / issued_at folded into `tag`)
#[derive(Clone, Copy, Debug, PartialEq, Eq)]
pub struct Oauth2Session {
    pub state: SessionState,
    pub rs_uuid: Uuid,
    pub tag: u8,
}
#[derive(Clone, Copy, Debug)]
pub struct ValueSetOauth2Session {
    pub map: BTreeMap<Uuid, Oauth2Session>,
    pub rs_filter: u128,
}
impl Uuid {
    pub fn as_u128(&self) -> u128 {
        self.0 as u128
    }
}
/// the value-set trait object, as far as replication merge uses it
pub trait ValueSetT {
    fn as_session_map(&self) -> Option<&BTreeMap<Uuid, Session>> {
        None
    }
    fn as_oauth2session_map(&self) -> Option<&BTreeMap<Uuid, Oauth2Session>> {
        None
    }
}
pub type ValueSet = Box<dyn ValueSetT>;
impl ValueSetT for ValueSetSession {
    fn as_session_map(&self) -> Option<&BTreeMap<Uuid, Session>> {
        Some(&self.map)
    }
}
impl ValueSetT for ValueSetOauth2Session {
    fn as_oauth2session_map(&self) -> Option<&BTreeMap<Uuid, Oauth2Session>> {
        Some(&self.map)
    }
}

#[cfg(kani)]
mod harness;
