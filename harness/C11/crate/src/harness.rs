use super::*;

macro_rules! check {
    ($c:expr, $m:literal) => {
        kani::assert($c, $m)
    };
}

fn any_cid() -> Cid {
    let s: u64 = kani::any();
    let n: u32 = kani::any();
    kani::assume(n < 1_000_000_000);
    Cid { ts: Duration::new(s, n), s_uuid: Uuid(kani::any()) }
}

fn any_state() -> SessionState {
    let k: u8 = kani::any();
    kani::assume(k < 3);
    match k {
        0 => SessionState::RevokedAt(any_cid()),
        1 => SessionState::ExpiresAt(OffsetDateTime(kani::any())),
        _ => SessionState::NeverExpires,
    }
}

fn is_revoked(s: &SessionState) -> bool {
    matches!(s, SessionState::RevokedAt(_))
}

/// The order on session states is a total order in which a revocation dominates everything
/// and, among revocations, the earliest change id wins.
#[kani::proof]
fn c11_state_order() {
    let a = any_state();
    let b = any_state();
    let c = any_state();
    let ab = a.cmp(&b);
    check!(ab == b.cmp(&a).reverse(), "C11: state order is antisymmetric");
    check!((ab == Ordering::Equal) == (a == b), "C11: Equal exactly for identical states");
    if ab != Ordering::Greater && b.cmp(&c) != Ordering::Greater {
        check!(a.cmp(&c) != Ordering::Greater, "C11: state order is transitive");
    }
    check!(a.partial_cmp(&b) == Some(ab), "C11: PartialOrd agrees with Ord");
    if is_revoked(&a) && !is_revoked(&b) {
        check!(ab == Ordering::Greater, "C11: a revocation dominates every non-revoked state");
    }
    if let (SessionState::RevokedAt(x), SessionState::RevokedAt(y)) = (&a, &b) {
        check!((ab == Ordering::Greater) == (x < y), "C11: among revocations the earliest change id wins");
    }
    if let (SessionState::ExpiresAt(_), SessionState::NeverExpires) = (&a, &b) {
        check!(ab == Ordering::Greater, "C11: an expiry dominates never-expires");
    }
    kani::cover!(is_revoked(&a) && is_revoked(&b) && ab == Ordering::Less, "two revocations");
    kani::cover!(ab == Ordering::Equal && is_revoked(&a), "same revocation");
}

fn any_session() -> Session {
    Session { state: any_state(), issued_at: OffsetDateTime(kani::any()), tag: kani::any() }
}

/// an ARBITRARY well-formed session map with 0..=2 entries over session ids 0..3
fn any_map() -> BTreeMap<Uuid, Session> {
    any_map_upto(2)
}

fn any_map_upto(maxlen: usize) -> BTreeMap<Uuid, Session> {
    let len: usize = kani::any();
    kani::assume(len <= maxlen);
    let k0: u8 = kani::any();
    let k1: u8 = kani::any();
    kani::assume(k0 < 3 && k1 < 3);
    let mut slots: [Option<(Uuid, Session)>; MAP_CAP] = [None; MAP_CAP];
    if len >= 1 {
        slots[0] = Some((Uuid(k0), any_session()));
    }
    if len >= 2 {
        slots[1] = Some((Uuid(k1), any_session()));
    }
    let m = BTreeMap::model_from_raw(len, slots);
    kani::assume(m.model_wf());
    m
}

fn trimmed(s: &SessionState, trim: &Cid) -> bool {
    match s {
        SessionState::RevokedAt(c) => c < trim,
        _ => false,
    }
}

fn maxs(a: SessionState, b: SessionState) -> SessionState {
    if b > a { b } else { a }
}

/// Replication merge of two replicas' session maps is the per-session JOIN (maximum) of the
/// states, then the changelog-window trim.
#[kani::proof]
#[kani::unwind(6)]
fn c11_session_merge_is_join() {
    merge_is_join(2, 2);
}

/// every-change tier: newer side holds at most one session
#[kani::proof]
#[kani::unwind(6)]
fn c11_session_merge_is_join_1x2() {
    merge_is_join(1, 2);
}

fn merge_is_join(n_newer: usize, n_older: usize) {
    let newer = ValueSetSession { map: any_map_upto(n_newer) };
    let older_map = any_map_upto(n_older);
    let older: ValueSet = Box::new(ValueSetSession { map: older_map });
    let trim = any_cid();
    let r = newer.repl_merge_valueset(&older, &trim);
    let r = match r {
        Some(r) => r,
        None => {
            check!(false, "C11: merging two session sets yields a session set");
            return;
        }
    };
    let rmap = match r.as_session_map() {
        Some(m) => *m,
        None => {
            check!(false, "C11: the merged value is a session set");
            return;
        }
    };
    check!(rmap.model_wf(), "map model stays well formed");
    let mut id = 0u8;
    while id < 3 {
        let k = Uuid(id);
        let a = newer.map.get(&k).copied();
        let b = older_map.get(&k).copied();
        let got = rmap.get(&k).copied();
        let want_state = match (a, b) {
            (Some(x), Some(y)) => Some(maxs(x.state, y.state)),
            (Some(x), None) => Some(x.state),
            (None, Some(y)) => Some(y.state),
            (None, None) => None,
        };
        match want_state {
            None => check!(got.is_none(), "C11: merge invents no session"),
            Some(ws) => {
                if trimmed(&ws, &trim) {
                    check!(got.is_none(), "C11: a revocation older than the changelog window is trimmed");
                } else {
                    match got {
                        Some(g) => {
                            check!(g.state == ws, "C11: merged state is the maximum of both replicas' states (revocation with the earliest change id wins)");
                            if a.map(|x| is_revoked(&x.state)).unwrap_or(false) || b.map(|y| is_revoked(&y.state)).unwrap_or(false) {
                                check!(is_revoked(&g.state), "C11: a session revoked on any replica stays revoked");
                            }
                        }
                        None => check!(false, "C11: merge loses no session inside the changelog window"),
                    }
                }
            }
        }
        id += 1;
    }
    kani::cover!(rmap.len() == 3, "three distinct sessions after merge");
    kani::cover!(newer.map.len() == 1 && older_map.len() == 2 && rmap.len() == 1, "some merged or trimmed");
}

/// The join the merge computes (maximum in the state order) is commutative, associative and
/// idempotent: together with c11_session_merge_is_join this makes the merged state independent
/// of the order and grouping of merges, and merging a state with itself a no-op.
#[kani::proof]
fn c11_state_join_laws() {
    let a = any_state();
    let b = any_state();
    let c = any_state();
    check!(maxs(a, b) == maxs(b, a), "C11: merge result does not depend on the order (commutative)");
    check!(maxs(a, a) == a, "C11: merging a state with itself changes nothing (idempotent)");
    check!(maxs(maxs(a, b), c) == maxs(a, maxs(b, c)), "C11: merge result does not depend on the grouping (associative)");
    if is_revoked(&a) || is_revoked(&b) || is_revoked(&c) {
        check!(is_revoked(&maxs(maxs(a, b), c)), "C11: a revocation on any replica survives every merge");
    }
    kani::cover!(is_revoked(&c) && !is_revoked(&a) && !is_revoked(&b), "revocation arrives from the third replica");
    kani::cover!(is_revoked(&a) && is_revoked(&b) && a != b, "two different revocations");
}

fn any_o2_map(maxlen: usize) -> BTreeMap<Uuid, Oauth2Session> {
    let len: usize = kani::any();
    kani::assume(len <= maxlen);
    let k0: u8 = kani::any();
    let k1: u8 = kani::any();
    kani::assume(k0 < 3 && k1 < 3);
    let mk = || Oauth2Session { state: any_state(), rs_uuid: Uuid(kani::any::<u8>() % 3), tag: kani::any() };
    let mut slots: [Option<(Uuid, Oauth2Session)>; MAP_CAP] = [None; MAP_CAP];
    if len >= 1 {
        slots[0] = Some((Uuid(k0), mk()));
    }
    if len >= 2 {
        slots[1] = Some((Uuid(k1), mk()));
    }
    let m = BTreeMap::model_from_raw(len, slots);
    kani::assume(m.model_wf());
    m
}

/// The same for OAuth2 sessions (their own copy of the merge code).
#[kani::proof]
#[kani::unwind(6)]
fn c11_oauth2_merge_is_join_1x2() {
    let newer = ValueSetOauth2Session { map: any_o2_map(1), rs_filter: 0 };
    let older_map = any_o2_map(2);
    let older: ValueSet = Box::new(ValueSetOauth2Session { map: older_map, rs_filter: 0 });
    let trim = any_cid();
    let r = newer.repl_merge_valueset(&older, &trim);
    let rmap = match r.as_ref().and_then(|v| v.as_oauth2session_map()) {
        Some(m) => *m,
        None => {
            check!(false, "C11: merging two OAuth2 session sets yields an OAuth2 session set");
            return;
        }
    };
    let mut id = 0u8;
    while id < 3 {
        let k = Uuid(id);
        let a = newer.map.get(&k).copied();
        let b = older_map.get(&k).copied();
        let got = rmap.get(&k).copied();
        let want_state = match (a, b) {
            (Some(x), Some(y)) => Some(maxs(x.state, y.state)),
            (Some(x), None) => Some(x.state),
            (None, Some(y)) => Some(y.state),
            (None, None) => None,
        };
        match want_state {
            None => check!(got.is_none(), "C11: merge invents no OAuth2 session"),
            Some(ws) => {
                if trimmed(&ws, &trim) {
                    check!(got.is_none(), "C11: a revocation older than the changelog window is trimmed");
                } else {
                    match got {
                        Some(g) => check!(g.state == ws, "C11: merged OAuth2 session state is the maximum of both replicas' states"),
                        None => check!(false, "C11: merge loses no OAuth2 session inside the changelog window"),
                    }
                }
            }
        }
        id += 1;
    }
    kani::cover!(rmap.len() == 3, "three sessions after merge");
    kani::cover!(rmap.len() == 1 && older_map.len() == 2, "merged or trimmed");
}

/// A value set of another type is not merged into an OAuth2 session set.
#[kani::proof]
#[kani::unwind(6)]
fn c11_oauth2_merge_other_type() {
    let newer = ValueSetOauth2Session { map: any_o2_map(1), rs_filter: 0 };
    let older: ValueSet = Box::new(ValueSetSession { map: BTreeMap::default() });
    let trim = any_cid();
    let r = newer.repl_merge_valueset(&older, &trim);
    check!(r.is_none(), "C11: a value of another type is not merged (the newer value is taken)");
    kani::cover!(newer.map.len() == 1, "one session on the newer side");
}

/// Contract of the map model.
#[kani::proof]
#[kani::unwind(6)]
fn c11_map_model_contract() {
    let mut m: BTreeMap<u8, u8> = BTreeMap::default();
    let (k1, k2, k3, q): (u8, u8, u8, u8) = (kani::any(), kani::any(), kani::any(), kani::any());
    m.insert(k1, 1);
    m.insert(k2, 2);
    m.insert(k3, 3);
    check!(m.model_wf(), "map model: sorted, dense, no duplicate keys");
    let want = if q == k3 { Some(3u8) } else if q == k2 { Some(2) } else if q == k1 { Some(1) } else { None };
    check!(m.get(&q).copied() == want, "map model: get returns the last value inserted for the key");
    let thr: u8 = kani::any();
    m.retain(|k, _| *k >= thr);
    check!(m.model_wf(), "map model: retain keeps the invariant");
    check!(m.get(&q).copied() == if q >= thr { want } else { None }, "map model: retain keeps exactly the selected entries");
    kani::cover!(m.len() == 2, "one removed");
}

/// Reachability twin: must FAIL.
#[kani::proof]
#[kani::unwind(6)]
fn c11_twin_must_fail() {
    let newer = ValueSetSession { map: any_map_upto(1) };
    let older: ValueSet = Box::new(ValueSetSession { map: any_map_upto(1) });
    let r = newer.repl_merge_valueset(&older, &any_cid());
    check!(r.is_some(), "reach");
    core::mem::forget(r);
    kani::assert(false, "twin: reachable");
}
