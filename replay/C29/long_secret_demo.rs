// Native demonstration of finding C29-F1 (fixed by the `fix:` commit recorded in known_findings.json):
// append to server/lib/src/credential/totp.rs; fails on the tree before the fix (verify returns
// false for the RFC 6238 code of a secret longer than the HMAC block size), passes after it.
#[cfg(test)]
mod verif_c29_demo {
    use super::{Totp, TotpAlgo, TotpDigits};
    use std::time::Duration;

    // RFC 6238 codes computed with Python's hmac/hashlib (which hash a key longer than the block
    // size first, RFC 2104) for secret = bytes(range(n)), time 59 s, step 30 (counter 1).
    #[test]
    fn long_secret_codes_are_accepted() {
        for (n, algo, digits, code) in [
            (65usize, TotpAlgo::Sha1, TotpDigits::Six, 428521u32),
            (100, TotpAlgo::Sha256, TotpDigits::Six, 501496),
            (129, TotpAlgo::Sha512, TotpDigits::Eight, 58745993),
            (200, TotpAlgo::Sha1, TotpDigits::Eight, 21876009),
            (64, TotpAlgo::Sha1, TotpDigits::Six, 602149),
        ] {
            let secret: Vec<u8> = (0..n).map(|i| i as u8).collect();
            let t = Totp::new(secret, 30, algo, digits);
            assert!(t.verify(code, Duration::from_secs(59)), "secret of {n} bytes: the RFC 6238 code must be accepted");
            assert!(!t.verify((code + 1) % 1_000_000, Duration::from_secs(59)));
        }
    }
}
