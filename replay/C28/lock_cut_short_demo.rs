// Native demonstration of known finding C28-F1 against the unmodified kanidmd_lib:
// append to server/lib/src/credential/softlock.rs in a scratch worktree and run
//   cargo test -p kanidmd_lib --lib verif_c28_demo      (fails on the final assert)
#[cfg(test)]
mod verif_c28_demo {
    use super::*;
    // A password failure whose delay crosses the UTC day boundary: the lock is wiped by the
    // window reset before its unlock time.
    #[test]
    fn lock_cut_short_by_window_end() {
        let mut sl = CredSoftLock::new(CredSoftLockPolicy::Password);
        // three quick failures late in day 0 (each recorded while the credential is valid)
        for t in [86380u64, 86382, 86384] {
            sl.apply_time_step(Duration::from_secs(t), None);
            assert!(sl.is_valid());
            sl.record_failure(Duration::from_secs(t));
        }
        // third failure at 86384 => 3 s delay => unlock_at 86387
        sl.apply_time_step(Duration::from_secs(86388), None);
        assert!(sl.is_valid());
        sl.record_failure(Duration::from_secs(86388)); // count 4, unlock 86391
        sl.apply_time_step(Duration::from_secs(86392), None);
        sl.record_failure(Duration::from_secs(86392)); // count 5, unlock 86395
        sl.apply_time_step(Duration::from_secs(86396), None);
        sl.record_failure(Duration::from_secs(86396)); // count 6, unlock 86399
        sl.apply_time_step(Duration::from_millis(86399_500), None);
        assert!(sl.is_valid());
        sl.record_failure(Duration::from_millis(86399_500)); // count 7, unlock 86402.5, reset 86400
        assert_eq!(
            sl.peek_state(),
            &LockState::Locked { count: 7, reset_at: Duration::from_secs(86400), unlock_at: Duration::from_millis(86402_500) }
        );
        // half a second after midnight, two seconds before the unlock time:
        sl.apply_time_step(Duration::from_millis(86400_500), None);
        assert!(!sl.is_valid(), "credential must still be refused until its unlock time 86402.5");
    }
}
