// Native demonstration of known finding C50-F1 against the unmodified kanidmd_lib:
// append to server/lib/src/server/access/mod.rs in a scratch worktree and run
//   cargo test -p kanidmd_lib --lib verif_c50_demo
// Both tests FAIL on the unmodified tree: the access layer answers `true` (allowed) where C50
// ("users can change a synchronised entry only in attributes handed over to Kanidm's authority,
// plus session and credential-reset state") requires `false`.
//
// Cause: apply_modify_access UNIONS the constraint set of modify_protected_attrs with the one of
// modify_sync_constrain (both are `append`ed into constrain_pres / constrain_rem).  As soon as a
// synchronised entry also falls under the protection ruleset (it carries `recycled` -- every
// entry a sync agreement deleted -- or a protected class, or sits in the built-in uuid range),
// the attributes that ruleset leaves open (class for recycled, account_expire/account_valid_from
// for accounts, member for groups, ...) become modifiable by any user holding a matching
// profile, although the agreement never yielded them.
#[cfg(test)]
mod verif_c50_demo {
    use std::sync::Arc;

    use super::profiles::AccessControlModify;
    use super::{AccessControls, AccessControlsTransaction};
    use crate::prelude::*;

    const UUID_TEST_ACCOUNT_1: Uuid = uuid::uuid!("cc8e95b4-c24f-4d68-ba54-8bed76f63930");
    const UUID_TEST_GROUP_1: Uuid = uuid::uuid!("81ec1640-3637-4a2f-8a52-874fa3c3c92f");

    fn actor() -> Arc<EntrySealedCommitted> {
        Arc::new(
            entry_init!(
                (Attribute::Class, EntryClass::Object.to_value()),
                (Attribute::Name, Value::new_iname("test_account_1")),
                (Attribute::Uuid, Value::Uuid(UUID_TEST_ACCOUNT_1)),
                (Attribute::MemberOf, Value::Refer(UUID_TEST_GROUP_1))
            )
            .into_sealed_committed(),
        )
    }

    fn allowed(me: &ModifyEvent, acp: AccessControlModify, entries: &[Arc<EntrySealedCommitted>]) -> bool {
        let ac = AccessControls::default();
        let mut acw = ac.write();
        acw.update_modify(vec![acp]).expect("Failed to update");
        // no synchronisation agreement yields anything
        acw.modify_allow_operation(me, entries).expect("op failed")
    }

    /// A synchronised account that the agreement deleted (it sits in the recycle bin, still a
    /// sync object): a user whose profile grants account_expire may now change it.
    #[test]
    fn recycled_sync_account_attribute_is_modifiable() {
        sketching::test_init();
        let sync_uuid = Uuid::new_v4();
        let target = uuid::uuid!("2a4b7c7e-7d3c-4a5c-9c1a-0d6ac0d5f111");
        let mk = |recycled: bool| {
            let mut e = entry_init!(
                (Attribute::Class, EntryClass::Object.to_value()),
                (Attribute::Class, EntryClass::Account.to_value()),
                (Attribute::Class, EntryClass::SyncObject.to_value()),
                (Attribute::SyncParentUuid, Value::Refer(sync_uuid)),
                (Attribute::Name, Value::new_iname("syncperson")),
                (Attribute::Uuid, Value::Uuid(target))
            );
            if recycled {
                e.add_ava(Attribute::Class, EntryClass::Recycled.to_value());
            }
            vec![Arc::new(e.into_sealed_committed())]
        };
        let acp = || {
            AccessControlModify::from_raw(
                "test_modify_allow",
                Uuid::new_v4(),
                UUID_TEST_GROUP_1,
                filter_valid!(f_eq(Attribute::Name, PartialValue::new_iname("syncperson"))),
                &format!("{}", Attribute::AccountExpire),
                &format!("{}", Attribute::AccountExpire),
                EntryClass::Account.into(),
                EntryClass::Account.into(),
            )
        };
        let me = ModifyEvent::new_impersonate_entry(
            actor(),
            filter_all!(f_eq(Attribute::Name, PartialValue::new_iname("syncperson"))),
            modlist!([m_purge(Attribute::AccountExpire)]),
        );
        // live synchronised account: refused, as C50 says
        assert!(!allowed(&me, acp(), &mk(false)));
        // the same entry once recycled: C50 still says refused
        assert!(!allowed(&me, acp(), &mk(true)), "C50-F1: account_expire of a (recycled) synchronised entry was never yielded");
    }

    /// A synchronised group whose uuid lies in the built-in range (a sync request can create
    /// one, see the note on C50 in properties.jsonl): `member` is open to any user whose profile
    /// grants it.
    #[test]
    fn builtin_range_sync_group_member_is_modifiable() {
        sketching::test_init();
        let sync_uuid = Uuid::new_v4();
        let mk = |u: Uuid| {
            vec![Arc::new(
                entry_init!(
                    (Attribute::Class, EntryClass::Object.to_value()),
                    (Attribute::Class, EntryClass::Group.to_value()),
                    (Attribute::Class, EntryClass::SyncObject.to_value()),
                    (Attribute::SyncParentUuid, Value::Refer(sync_uuid)),
                    (Attribute::Name, Value::new_iname("syncgroup")),
                    (Attribute::Uuid, Value::Uuid(u))
                )
                .into_sealed_committed(),
            )]
        };
        let acp = || {
            AccessControlModify::from_raw(
                "test_modify_allow",
                Uuid::new_v4(),
                UUID_TEST_GROUP_1,
                filter_valid!(f_eq(Attribute::Name, PartialValue::new_iname("syncgroup"))),
                &format!("{}", Attribute::Member),
                &format!("{}", Attribute::Member),
                EntryClass::Group.into(),
                EntryClass::Group.into(),
            )
        };
        let me = ModifyEvent::new_impersonate_entry(
            actor(),
            filter_all!(f_eq(Attribute::Name, PartialValue::new_iname("syncgroup"))),
            modlist!([m_pres(Attribute::Member, &Value::Refer(UUID_TEST_ACCOUNT_1))]),
        );
        // ordinary uuid: refused
        assert!(!allowed(&me, acp(), &mk(uuid::uuid!("2a4b7c7e-7d3c-4a5c-9c1a-0d6ac0d5f222"))));
        // built-in range: C50 still says refused
        assert!(
            !allowed(&me, acp(), &mk(uuid::uuid!("00000000-0000-0000-0000-00000000a1b2"))),
            "C50-F1: member of a synchronised group was never yielded"
        );
    }
}
