// Native demonstrations of the C01 findings against the unmodified kanidmd_lib backend (real
// SQLite in memory, real idlset, real Entry evaluation).  Append to server/lib/src/be/mod.rs in a
// scratch worktree and run:   cargo test -p kanidmd_lib --lib verif_c01_demo
// Each test compares index-driven search with a full scan + entry_match_no_index oracle.
#[cfg(test)]
mod verif_c01_demo {
    use super::{Backend, BackendConfig, BackendTransaction, IdxKey, Limits};
    use crate::prelude::*;
    use crate::repl::cid::Cid;
    use crate::value::{IndexType, PartialValue, Value};
    use std::collections::BTreeSet;
    use std::sync::Arc;

    fn names(entries: &[Arc<EntrySealedCommitted>]) -> BTreeSet<String> {
        entries
            .iter()
            .filter_map(|e| e.get_ava_single_iname(Attribute::Name).map(str::to_string))
            .collect()
    }

    fn setup() -> Backend {
        let idxmeta = vec![
            IdxKey::new(Attribute::Name, IndexType::Equality),
            IdxKey::new(Attribute::Name, IndexType::Presence),
            IdxKey::new(Attribute::Name, IndexType::SubString),
            IdxKey::new(Attribute::Uuid, IndexType::Equality),
            IdxKey::new(Attribute::Uuid, IndexType::Presence),
        ];
        Backend::new(BackendConfig::new_test("main"), idxmeta, false).expect("Failed to setup backend")
    }

    fn mk(name: &str, uuid: &str) -> Entry<EntrySealed, EntryNew> {
        let mut e: Entry<EntryInit, EntryNew> = Entry::new();
        e.add_ava(Attribute::Name, Value::new_iname(name));
        e.add_ava(Attribute::Uuid, Value::from(uuid));
        e.into_sealed_new()
    }

    /// C01-F2: And[ indexed term, AndNot( substring term served by the fuzzy grapheme index ) ]
    /// subtracts a SUPERSET of the entries matching the inner term, so entries that do satisfy
    /// the NOT are dropped before the per-entry re-test can see them.
    #[test]
    fn and_not_of_fuzzy_indexed_term_loses_entries() {
        sketching::test_init();
        let be = setup();
        let mut be_txn = be.write().unwrap();
        assert!(be_txn.reindex(false).is_ok());
        let cid = Cid::new_zero();
        be_txn
            .create(
                &cid,
                vec![
                    mk("abcdone", "db237e8a-0079-4b8c-8a56-593b22aa44d1"),
                    // shares the leading trigraph "abc" with the query but does NOT contain "abcd"
                    mk("abcxtwo", "db237e8a-0079-4b8c-8a56-593b22aa44d2"),
                    mk("zzzthree", "db237e8a-0079-4b8c-8a56-593b22aa44d3"),
                ],
            )
            .expect("create failed");
        let lims = Limits::unlimited();
        // name present AND NOT (name contains "abcd")
        let filt = filter_resolved!(f_and!([
            f_pres(Attribute::Name),
            f_andnot(f_sub(Attribute::Name, PartialValue::new_iname("abcd")))
        ]));
        let got = names(&be_txn.search(&lims, &filt).expect("search failed"));
        let all = be_txn
            .search(&lims, &filter_resolved!(f_pres(Attribute::Uuid)))
            .expect("scan failed");
        let want: BTreeSet<String> = names(
            &all.iter()
                .filter(|e| e.entry_match_no_index(&filt))
                .cloned()
                .collect::<Vec<_>>(),
        );
        assert_eq!(want, ["abcxtwo", "zzzthree"].iter().map(|s| s.to_string()).collect());
        assert_eq!(got, want, "index-driven search must return exactly the entries the filter matches");
    }

    /// C01-F1: a NOT term with no positive sibling (here under OR) is evaluated as the empty set
    /// by the index path but as set complement by the per-entry evaluation.
    #[test]
    fn or_with_not_depends_on_indexing() {
        sketching::test_init();
        let be = setup();
        let mut be_txn = be.write().unwrap();
        assert!(be_txn.reindex(false).is_ok());
        let cid = Cid::new_zero();
        be_txn
            .create(
                &cid,
                vec![
                    mk("ga", "db237e8a-0079-4b8c-8a56-593b22aa44d1"),
                    mk("gb", "db237e8a-0079-4b8c-8a56-593b22aa44d2"),
                    mk("gc", "db237e8a-0079-4b8c-8a56-593b22aa44d3"),
                ],
            )
            .expect("create failed");
        let lims = Limits::unlimited();
        let filt = filter_resolved!(f_or!([
            f_eq(Attribute::Name, PartialValue::new_iname("ga")),
            f_andnot(f_eq(Attribute::Name, PartialValue::new_iname("gb")))
        ]));
        let got = names(&be_txn.search(&lims, &filt).expect("search failed"));
        let all = be_txn
            .search(&lims, &filter_resolved!(f_pres(Attribute::Uuid)))
            .expect("scan failed");
        let want: BTreeSet<String> = names(
            &all.iter()
                .filter(|e| e.entry_match_no_index(&filt))
                .cloned()
                .collect::<Vec<_>>(),
        );
        assert_eq!(want, ["ga", "gc"].iter().map(|s| s.to_string()).collect());
        assert_eq!(got, want, "index-driven search must return exactly the entries the filter matches");
    }
}
