//! Environment model of kanidm's `sketching` logging crate: same macro names and `EventTag`
//! enum, every macro has an empty body. (DESIGN.md F2: logging is cut at the crate boundary.)
pub use tracing;

#[derive(Debug, Clone, Copy, PartialEq, Eq)]
#[repr(u64)]
pub enum EventTag {
    AdminDebug,
    AdminError,
    AdminWarn,
    AdminInfo,
    RequestError,
    RequestWarn,
    RequestInfo,
    RequestTrace,
    SecurityCritical,
    SecurityDebug,
    SecurityInfo,
    SecurityAccess,
    SecurityError,
    FilterError,
    FilterWarn,
    FilterInfo,
    FilterTrace,
    PerfTrace,
}

impl From<EventTag> for u64 {
    fn from(e: EventTag) -> u64 { e as u64 }
}

pub fn test_init() {}

macro_rules! noop_macros {
    ($d:tt; $($name:ident),*) => {
        $(
            #[macro_export]
            macro_rules! $name { ($d($d t:tt)*) => { () }; }
        )*
    };
}
noop_macros!($; tagged_event, admin_debug, admin_error, admin_warn, admin_info, request_error,
    request_warn, request_info, request_trace, security_critical, security_error, security_info,
    security_debug, security_access, filter_error, filter_warn, filter_info, filter_debug,
    filter_trace, perf_trace, event_dynamic_lvl);

#[macro_export]
macro_rules! spanned {
    ($name:expr, $code:block) => {{ $code }};
    ($name:expr, || $code:block) => {{ (|| $code)() }};
}
