//! Environment model of `tracing-attributes`: `#[instrument(..)]` is the identity on the item.
//! (Logging gets an empty body; see DESIGN.md F2.)
use proc_macro::TokenStream;

#[proc_macro_attribute]
pub fn instrument(_args: TokenStream, item: TokenStream) -> TokenStream {
    item
}
