//! Derive macros with empty expansions, so that sliced item text can keep its
//! `#[derive(Serialize, Deserialize, ToSchema, ...)]` and helper attributes unchanged in a slice
//! crate that does not link serde/utoipa (serialisation is outside those claims).
use proc_macro::TokenStream;

#[proc_macro_derive(Serialize, attributes(serde, serde_as))]
pub fn ser(_i: TokenStream) -> TokenStream { TokenStream::new() }
#[proc_macro_derive(Deserialize, attributes(serde, serde_as))]
pub fn de(_i: TokenStream) -> TokenStream { TokenStream::new() }
#[proc_macro_derive(ToSchema, attributes(schema))]
pub fn ts(_i: TokenStream) -> TokenStream { TokenStream::new() }
#[proc_macro_derive(IntoPrimitive, attributes(num_enum))]
pub fn ip(_i: TokenStream) -> TokenStream { TokenStream::new() }
#[proc_macro_derive(TryFromPrimitive, attributes(num_enum))]
pub fn tfp(_i: TokenStream) -> TokenStream { TokenStream::new() }

#[proc_macro_attribute]
pub fn instrument(_a: TokenStream, item: TokenStream) -> TokenStream { item }
#[proc_macro_attribute]
pub fn skip_serializing_none(_a: TokenStream, item: TokenStream) -> TokenStream { item }
#[proc_macro_attribute]
pub fn serde_as(_a: TokenStream, item: TokenStream) -> TokenStream { item }
