// Model of std::collections::BTreeSet on top of the sorted-array map model (include
// btreemap.rs first).  Covers the commonly used API so that realistic edits of the sliced code
// still compile: new/default, insert, remove, contains, get, len, is_empty, clear, iter,
// first/last, is_subset, is_disjoint, extend-like `extend_from`, PartialEq.
#[derive(Clone, Copy)]
pub struct BTreeSet<K: Copy + Ord> {
    m: BTreeMap<K, ()>,
}
impl<K: Copy + Ord> Default for BTreeSet<K> {
    fn default() -> Self {
        BTreeSet { m: BTreeMap::default() }
    }
}
impl<K: Copy + Ord> BTreeSet<K> {
    pub fn new() -> Self {
        Self::default()
    }
    pub fn insert(&mut self, k: K) -> bool {
        self.m.insert(k, ()).is_none()
    }
    pub fn remove(&mut self, k: &K) -> bool {
        self.m.remove(k).is_some()
    }
    pub fn contains(&self, k: &K) -> bool {
        self.m.contains_key(k)
    }
    pub fn get(&self, k: &K) -> Option<&K> {
        let mut r = None;
        for (kk, _) in self.m.iter() {
            if kk == k {
                r = Some(kk);
            }
        }
        r
    }
    pub fn len(&self) -> usize {
        self.m.len()
    }
    pub fn is_empty(&self) -> bool {
        self.m.is_empty()
    }
    pub fn clear(&mut self) {
        self.m = BTreeMap::default();
    }
    pub fn iter(&self) -> impl Iterator<Item = &K> + '_ {
        self.m.keys()
    }
    pub fn first(&self) -> Option<&K> {
        self.m.first_key_value().map(|(k, _)| k)
    }
    pub fn last(&self) -> Option<&K> {
        self.m.last_key_value().map(|(k, _)| k)
    }
    pub fn is_subset(&self, o: &Self) -> bool {
        let mut ok = true;
        for k in self.iter() {
            ok = ok && o.contains(k);
        }
        ok
    }
    pub fn is_disjoint(&self, o: &Self) -> bool {
        let mut ok = true;
        for k in self.iter() {
            ok = ok && !o.contains(k);
        }
        ok
    }
    /// elements of self that are also in `o`, ascending
    pub fn intersection<'a>(&'a self, o: &'a Self) -> impl Iterator<Item = &'a K> + 'a {
        self.m.keys().filter(move |k| o.contains(k))
    }
    /// elements of self that are not in `o`, ascending
    pub fn difference<'a>(&'a self, o: &'a Self) -> impl Iterator<Item = &'a K> + 'a {
        self.m.keys().filter(move |k| !o.contains(k))
    }
    pub fn model_from_map(m: BTreeMap<K, ()>) -> Self {
        BTreeSet { m }
    }
    pub fn model_wf(&self) -> bool {
        self.m.model_wf()
    }
}
impl<K: Copy + Ord> PartialEq for BTreeSet<K> {
    fn eq(&self, o: &Self) -> bool {
        self.m == o.m
    }
}
impl<K: Copy + Ord> Eq for BTreeSet<K> {}
impl<K: Copy + Ord> core::fmt::Debug for BTreeSet<K> {
    fn fmt(&self, _f: &mut core::fmt::Formatter<'_>) -> core::fmt::Result {
        Ok(())
    }
}
impl<K: Copy + Ord> FromIterator<K> for BTreeSet<K> {
    fn from_iter<I: IntoIterator<Item = K>>(it: I) -> Self {
        let mut s = BTreeSet::default();
        for k in it {
            s.insert(k);
        }
        s
    }
}
impl<K: Copy + Ord> Extend<K> for BTreeSet<K> {
    fn extend<I: IntoIterator<Item = K>>(&mut self, it: I) {
        for k in it {
            self.insert(k);
        }
    }
}
