// Models of std `Vec<T>` and `Box<T>` for recursive term types under CBMC.
//
// Why: CBMC's symbolic execution does not see the variant of an enum value as a constant once
// the value is reached through a pointer that was itself loaded from an enum payload living on
// the heap (a Vec buffer or a Box inside another Vec/Box).  A recursive `match` over such a term
// then explores every arm at every level down to the unwind bound (measured: And[Eq, Or[Eq,
// LessThan]] does not finish in 300 s, And[Eq, LessThan] takes 2 s).  Here children live in a
// static arena addressed by small concrete indices, so every read is a read of a known array
// element and the term's shape stays concrete for the symbolic executor.
//
// Contract modelled: Vec is a finite sequence with push / len / is_empty / iter (in insertion
// order) / Default / Extend / Clone / PartialEq; Box is a unique owner with Deref.  Capacity
// ARENA_CAP terms and VEC_CAP items per vector; exceeding either is asserted, never silent.
// The including crate must define `ArenaItem` (the recursive term type).

pub const VEC_CAP: usize = 4;
pub const ARENA_CAP: usize = 24;

pub trait Slot: Sized {
    type H: Copy;
    fn put(self) -> Self::H;
    fn get<'a>(h: &'a Self::H) -> &'a Self;
}

pub static mut ARENA: [Option<ArenaItem>; ARENA_CAP] = [const { None }; ARENA_CAP];
pub static mut ARENA_NEXT: usize = 0;

#[derive(Clone, Copy)]
pub struct ArenaH(pub usize);

impl Slot for ArenaItem {
    type H = ArenaH;
    fn put(self) -> ArenaH {
        unsafe {
            let i = ARENA_NEXT;
            #[cfg(kani)]
            kani::assert(i < ARENA_CAP, "arena model: capacity exceeded");
            if i >= ARENA_CAP {
                return ArenaH(0);
            }
            ARENA[i] = Some(self);
            ARENA_NEXT = i + 1;
            ArenaH(i)
        }
    }
    fn get<'a>(h: &'a ArenaH) -> &'a ArenaItem {
        unsafe {
            match &ARENA[h.0] {
                Some(x) => x,
                None => unreachable!(),
            }
        }
    }
}

impl<'b> Slot for &'b ArenaItem {
    type H = &'b ArenaItem;
    fn put(self) -> Self::H {
        self
    }
    fn get<'a>(h: &'a Self::H) -> &'a Self {
        h
    }
}

pub struct Vec<T: Slot> {
    len: usize,
    h: [Option<T::H>; VEC_CAP],
}

impl<T: Slot> Vec<T> {
    pub fn new() -> Self {
        Vec { len: 0, h: [None; VEC_CAP] }
    }
    pub fn with_capacity(_c: usize) -> Self {
        Self::new()
    }
    pub fn push(&mut self, t: T) {
        #[cfg(kani)]
        kani::assert(self.len < VEC_CAP, "vec model: capacity exceeded");
        if self.len < VEC_CAP {
            self.h[self.len] = Some(t.put());
            self.len += 1;
        }
    }
    pub fn len(&self) -> usize {
        self.len
    }
    pub fn is_empty(&self) -> bool {
        self.len == 0
    }
    pub fn iter(&self) -> VIter<'_, T> {
        VIter { v: self, i: 0 }
    }
    pub fn first(&self) -> Option<&T> {
        self.get(0)
    }
    pub fn get(&self, i: usize) -> Option<&T> {
        if i < self.len && i < VEC_CAP {
            self.h[i].as_ref().map(|h| T::get(h))
        } else {
            None
        }
    }
    pub fn shrink_to_fit(&mut self) {}
}

impl<T: Slot> Default for Vec<T> {
    fn default() -> Self {
        Self::new()
    }
}

impl<T: Slot> Extend<T> for Vec<T> {
    fn extend<I: IntoIterator<Item = T>>(&mut self, iter: I) {
        for t in iter {
            self.push(t);
        }
    }
}

impl<T: Slot> Clone for Vec<T> {
    fn clone(&self) -> Self {
        Vec { len: self.len, h: self.h }
    }
}

impl<T: Slot + PartialEq> PartialEq for Vec<T> {
    fn eq(&self, o: &Self) -> bool {
        if self.len != o.len {
            return false;
        }
        let mut i = 0;
        let mut ok = true;
        while i < VEC_CAP {
            if i < self.len {
                match (self.get(i), o.get(i)) {
                    (Some(a), Some(b)) => ok = ok && a == b,
                    _ => ok = false,
                }
            }
            i += 1;
        }
        ok
    }
}
impl<T: Slot + Eq> Eq for Vec<T> {}

pub struct VIter<'a, T: Slot> {
    v: &'a Vec<T>,
    i: usize,
}
impl<'a, T: Slot> Iterator for VIter<'a, T> {
    type Item = &'a T;
    fn next(&mut self) -> Option<&'a T> {
        if self.i < self.v.len && self.i < VEC_CAP {
            let r = self.v.h[self.i].as_ref().map(|h| T::get(h));
            self.i += 1;
            r
        } else {
            None
        }
    }
}
impl<'a, T: Slot> IntoIterator for &'a Vec<T> {
    type Item = &'a T;
    type IntoIter = VIter<'a, T>;
    fn into_iter(self) -> VIter<'a, T> {
        self.iter()
    }
}

// NOTE: the including crate defines `macro_rules! vec` itself (a macro defined through include!
// would be ambiguous with the prelude macro).

pub struct Box<T: Slot> {
    h: T::H,
}
impl<T: Slot> Box<T> {
    pub fn new(t: T) -> Self {
        Box { h: t.put() }
    }
}
impl<T: Slot> core::ops::Deref for Box<T> {
    type Target = T;
    fn deref(&self) -> &T {
        T::get(&self.h)
    }
}
impl<T: Slot> AsRef<T> for Box<T> {
    fn as_ref(&self) -> &T {
        T::get(&self.h)
    }
}
impl<T: Slot> Clone for Box<T> {
    fn clone(&self) -> Self {
        Box { h: self.h }
    }
}
impl<T: Slot + PartialEq> PartialEq for Box<T> {
    fn eq(&self, o: &Self) -> bool {
        T::get(&self.h) == T::get(&o.h)
    }
}
impl<T: Slot + Eq> Eq for Box<T> {}
