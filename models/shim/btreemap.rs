// Model of std::collections::BTreeMap for solver runs: a fixed-capacity array kept sorted by key,
// no heap, no node splitting.  Implements the documented contract of the operations used by the
// sliced code (default/new, insert, get, get_mut, remove, contains_key, iter, keys, values, len,
// is_empty, first/last_key_value, PartialEq/Eq, Debug).  Self-checked by `map_model_contract`
// harnesses in the crates that include it.  CAP is the bound on distinct keys; exceeding it is a
// harness error (asserted), never silent.
// The including crate defines `pub const MAP_CAP: usize = N;` before including this file.

#[derive(Clone, Copy)]
pub struct BTreeMap<K: Copy + Ord, V: Copy> {
    len: usize,
    slots: [Option<(K, V)>; MAP_CAP],
}

impl<K: Copy + Ord, V: Copy> Default for BTreeMap<K, V> {
    fn default() -> Self {
        BTreeMap { len: 0, slots: [None; MAP_CAP] }
    }
}

impl<K: Copy + Ord, V: Copy> BTreeMap<K, V> {
    pub fn new() -> Self {
        Self::default()
    }
    pub fn len(&self) -> usize {
        self.len
    }
    pub fn is_empty(&self) -> bool {
        self.len == 0
    }
    fn find(&self, k: &K) -> Option<usize> {
        let mut i = 0;
        while i < MAP_CAP {
            if i < self.len {
                if let Some((kk, _)) = &self.slots[i] {
                    if kk == k {
                        return Some(i);
                    }
                }
            }
            i += 1;
        }
        None
    }
    pub fn get(&self, k: &K) -> Option<&V> {
        match self.find(k) {
            Some(i) => self.slots[i].as_ref().map(|(_, v)| v),
            None => None,
        }
    }
    pub fn get_mut(&mut self, k: &K) -> Option<&mut V> {
        match self.find(k) {
            Some(i) => self.slots[i].as_mut().map(|(_, v)| v),
            None => None,
        }
    }
    pub fn contains_key(&self, k: &K) -> bool {
        self.find(k).is_some()
    }
    pub fn insert(&mut self, k: K, v: V) -> Option<V> {
        if let Some(i) = self.find(&k) {
            let old = self.slots[i].map(|(_, v)| v);
            self.slots[i] = Some((k, v));
            return old;
        }
        #[cfg(kani)]
        kani::assert(self.len < MAP_CAP, "map model: capacity exceeded (raise MAP_CAP)");
        if self.len >= MAP_CAP {
            return None;
        }
        // insertion position: first index whose key is greater
        let mut pos = self.len;
        let mut i = 0;
        while i < MAP_CAP {
            if i < self.len && pos == self.len {
                if let Some((kk, _)) = &self.slots[i] {
                    if *kk > k {
                        pos = i;
                    }
                }
            }
            i += 1;
        }
        let mut j = MAP_CAP - 1;
        while j > 0 {
            if j > pos && j <= self.len {
                self.slots[j] = self.slots[j - 1];
            }
            j -= 1;
        }
        self.slots[pos] = Some((k, v));
        self.len += 1;
        None
    }
    pub fn remove(&mut self, k: &K) -> Option<V> {
        let i = self.find(k)?;
        let old = self.slots[i].map(|(_, v)| v);
        let mut j = 0;
        while j + 1 < MAP_CAP {
            if j >= i && j + 1 < self.len {
                self.slots[j] = self.slots[j + 1];
            }
            j += 1;
        }
        self.len -= 1;
        self.slots[self.len] = None;
        old
    }
    /// keep only the entries for which `f` answers true (ascending key order, like std)
    pub fn retain<F: FnMut(&K, &mut V) -> bool>(&mut self, mut f: F) {
        let mut out: BTreeMap<K, V> = BTreeMap::default();
        let mut i = 0;
        while i < MAP_CAP {
            if i < self.len {
                if let Some((k, mut v)) = self.slots[i] {
                    if f(&k, &mut v) {
                        // keys arrive in ascending order: append
                        out.slots[out.len] = Some((k, v));
                        out.len += 1;
                    }
                }
            }
            i += 1;
        }
        *self = out;
    }
    pub fn clear(&mut self) {
        *self = BTreeMap::default();
    }
    /// insert every entry of `o` (later keys overwrite), like Extend<(K, V)>
    pub fn extend(&mut self, o: BTreeMap<K, V>) {
        let mut i = 0;
        while i < MAP_CAP {
            if i < o.len {
                if let Some((k, v)) = o.slots[i] {
                    self.insert(k, v);
                }
            }
            i += 1;
        }
    }
    pub fn iter(&self) -> MapIter<'_, K, V> {
        MapIter { m: self, i: 0 }
    }
    pub fn keys(&self) -> impl Iterator<Item = &K> + '_ {
        self.iter().map(|(k, _)| k)
    }
    pub fn values(&self) -> impl Iterator<Item = &V> + '_ {
        self.iter().map(|(_, v)| v)
    }
    pub fn first_key_value(&self) -> Option<(&K, &V)> {
        if self.len == 0 { None } else { self.slots[0].as_ref().map(|(k, v)| (k, v)) }
    }
    pub fn last_key_value(&self) -> Option<(&K, &V)> {
        if self.len == 0 { None } else { self.slots[self.len - 1].as_ref().map(|(k, v)| (k, v)) }
    }
    /// model-only: build a map directly from its representation (harnesses use it together
    /// with `kani::assume(m.model_wf())` to get an ARBITRARY well-formed map without paying for
    /// symbolic insertions)
    pub fn model_from_raw(len: usize, slots: [Option<(K, V)>; MAP_CAP]) -> Self {
        BTreeMap { len, slots }
    }
    /// model-only: sortedness / density invariant
    pub fn model_wf(&self) -> bool {
        let mut ok = self.len <= MAP_CAP;
        let mut i = 0;
        while i < MAP_CAP {
            if i < self.len {
                ok = ok && self.slots[i].is_some();
                if i + 1 < self.len {
                    if let (Some((a, _)), Some((b, _))) = (&self.slots[i], &self.slots[i + 1]) {
                        ok = ok && a < b;
                    }
                }
            } else {
                ok = ok && self.slots[i].is_none();
            }
            i += 1;
        }
        ok
    }
}

pub struct MapIter<'a, K: Copy + Ord, V: Copy> {
    m: &'a BTreeMap<K, V>,
    i: usize,
}
impl<'a, K: Copy + Ord, V: Copy> Iterator for MapIter<'a, K, V> {
    type Item = (&'a K, &'a V);
    fn next(&mut self) -> Option<Self::Item> {
        if self.i < self.m.len && self.i < MAP_CAP {
            let r = self.m.slots[self.i].as_ref().map(|(k, v)| (k, v));
            self.i += 1;
            r
        } else {
            None
        }
    }
}
impl<'a, K: Copy + Ord, V: Copy> IntoIterator for &'a BTreeMap<K, V> {
    type Item = (&'a K, &'a V);
    type IntoIter = MapIter<'a, K, V>;
    fn into_iter(self) -> Self::IntoIter {
        self.iter()
    }
}

impl<K: Copy + Ord, V: Copy + PartialEq> PartialEq for BTreeMap<K, V> {
    fn eq(&self, o: &Self) -> bool {
        if self.len != o.len {
            return false;
        }
        let mut ok = true;
        let mut i = 0;
        while i < MAP_CAP {
            if i < self.len {
                match (&self.slots[i], &o.slots[i]) {
                    (Some((a, x)), Some((b, y))) => ok = ok && a == b && x == y,
                    _ => ok = false,
                }
            }
            i += 1;
        }
        ok
    }
}
impl<K: Copy + Ord, V: Copy + Eq> Eq for BTreeMap<K, V> {}
impl<K: Copy + Ord, V: Copy> core::fmt::Debug for BTreeMap<K, V> {
    fn fmt(&self, _f: &mut core::fmt::Formatter<'_>) -> core::fmt::Result {
        Ok(())
    }
}
impl<K: Copy + Ord, V: Copy> FromIterator<(K, V)> for BTreeMap<K, V> {
    fn from_iter<I: IntoIterator<Item = (K, V)>>(it: I) -> Self {
        let mut m = BTreeMap::default();
        for (k, v) in it {
            m.insert(k, v);
        }
        m
    }
}
