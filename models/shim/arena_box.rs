// Model of std `Box<T>` for a recursive term type under CBMC: the boxed value lives in a static
// array addressed by a small concrete index instead of behind a heap pointer stored inside
// another heap object (CBMC's symbolic execution loses the variant of an enum reached through a
// pointer that was itself loaded from an enum payload on the heap, and then explores every arm
// of a recursive match: And[Eq, AndNot(LessThan)] did not finish in 900 s).
// Contract: unique owner with Deref / Clone / PartialEq.  Capacity BOX_CAP (asserted).
// The including crate defines `BoxItem` (the recursive term type).
pub const BOX_CAP: usize = 4;
pub static mut BOXES: [Option<BoxItem>; BOX_CAP] = [const { None }; BOX_CAP];
pub static mut BOX_NEXT: usize = 0;

pub struct Box<T> {
    pub i: usize,
    pub _p: core::marker::PhantomData<T>,
}
pub trait Boxable: Sized {
    fn boxed(self) -> Box<Self>;
}
impl<T: Boxable> Box<T> {
    pub fn new(t: T) -> Self {
        t.boxed()
    }
}
impl Boxable for BoxItem {
    fn boxed(self) -> Box<BoxItem> {
        let t = self;
        unsafe {
            let i = BOX_NEXT;
            #[cfg(kani)]
            kani::assert(i < BOX_CAP, "box model: capacity exceeded");
            let i = if i < BOX_CAP { i } else { 0 };
            BOXES[i] = Some(t);
            BOX_NEXT = i + 1;
            Box { i, _p: core::marker::PhantomData }
        }
    }
}
impl core::ops::Deref for Box<BoxItem> {
    type Target = BoxItem;
    /// Case split on the slot number: `self.i` is read out of an enum payload and is therefore
    /// not a constant for CBMC's symbolic execution, but each branch below returns a reference
    /// to one *fixed* slot whose variant is a constant.  The solver still knows which branch is
    /// the real one (the guards are exact), so nothing is lost or added.
    fn deref(&self) -> &BoxItem {
        unsafe {
            let r: &Option<BoxItem> = if self.i == 0 {
                &BOXES[0]
            } else if self.i == 1 {
                &BOXES[1]
            } else if self.i == 2 {
                &BOXES[2]
            } else {
                &BOXES[3]
            };
            match r {
                Some(x) => x,
                None => unreachable!(),
            }
        }
    }
}
impl Clone for Box<BoxItem> {
    fn clone(&self) -> Self {
        Box { i: self.i, _p: core::marker::PhantomData }
    }
}
impl PartialEq for Box<BoxItem> {
    fn eq(&self, o: &Self) -> bool {
        **self == **o
    }
}
impl Eq for Box<BoxItem> {}
