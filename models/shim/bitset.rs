// Model of std::collections::BTreeSet for keys from a small fixed vocabulary: a bitmask.
// Far cheaper for the solver than the sorted-array model (no symbolic insertion shifts), usable
// when the sliced code only inserts, removes, tests, iterates, extends and compares sets.
// The key type implements `SmallKey` (index < 64, monotone w.r.t. Ord so iteration stays in
// ascending key order).  Iterators yield `&'static K` taken from the vocabulary table, so
// `.iter().cloned()`, `.copied()`, `|&k|` patterns etc. work as with std.
pub trait SmallKey: Copy {
    fn idx(&self) -> u8;
    /// the vocabulary, indexed by idx()
    fn table<'t>() -> &'t [Self]
    where
        Self: 't;
    const N: u8;
    fn from_idx(i: u8) -> Self {
        Self::table()[(i % Self::N) as usize]
    }
}

#[derive(Clone, Copy)]
pub struct BTreeSet<K: SmallKey> {
    pub bits: u64,
    _p: core::marker::PhantomData<K>,
}
impl<K: SmallKey> Default for BTreeSet<K> {
    fn default() -> Self {
        BTreeSet { bits: 0, _p: core::marker::PhantomData }
    }
}
impl<K: SmallKey> BTreeSet<K> {
    pub fn new() -> Self {
        Self::default()
    }
    pub fn model_from_bits(bits: u64) -> Self {
        BTreeSet { bits, _p: core::marker::PhantomData }
    }
    pub fn insert(&mut self, k: K) -> bool {
        let m = 1u64 << k.idx();
        let fresh = self.bits & m == 0;
        self.bits |= m;
        fresh
    }
    /// like std: takes `&Q` where the key type can be borrowed as Q (String as str, ...)
    pub fn remove<Q: ?Sized>(&mut self, k: &Q) -> bool
    where
        K: KeyBorrow<Q>,
    {
        let m = 1u64 << K::idx_of(k);
        let had = self.bits & m != 0;
        self.bits &= !m;
        had
    }
    pub fn contains<Q: ?Sized>(&self, k: &Q) -> bool
    where
        K: KeyBorrow<Q>,
    {
        self.bits & (1u64 << K::idx_of(k)) != 0
    }
    pub fn len(&self) -> usize {
        self.bits.count_ones() as usize
    }
    pub fn is_empty(&self) -> bool {
        self.bits == 0
    }
    pub fn clear(&mut self) {
        self.bits = 0;
    }
    pub fn iter(&self) -> BitIter<'_, K> {
        BitIter { bits: self.bits, i: 0, _p: core::marker::PhantomData }
    }
    pub fn is_subset(&self, o: &Self) -> bool {
        self.bits & !o.bits == 0
    }
    pub fn is_superset(&self, o: &Self) -> bool {
        o.bits & !self.bits == 0
    }
    pub fn is_disjoint(&self, o: &Self) -> bool {
        self.bits & o.bits == 0
    }
    pub fn intersection<'t>(&'t self, o: &'t Self) -> BitIter<'t, K> {
        BitIter { bits: self.bits & o.bits, i: 0, _p: core::marker::PhantomData }
    }
    pub fn difference<'t>(&'t self, o: &'t Self) -> BitIter<'t, K> {
        BitIter { bits: self.bits & !o.bits, i: 0, _p: core::marker::PhantomData }
    }
    pub fn union<'t>(&'t self, o: &'t Self) -> BitIter<'t, K> {
        BitIter { bits: self.bits | o.bits, i: 0, _p: core::marker::PhantomData }
    }
    /// moves all elements of `o` into self, leaving `o` empty
    pub fn append(&mut self, o: &mut Self) {
        self.bits |= o.bits;
        o.bits = 0;
    }
}
/// the model's counterpart of `K: Borrow<Q>`
pub trait KeyBorrow<Q: ?Sized> {
    fn idx_of(q: &Q) -> u8;
}
impl<K: SmallKey> KeyBorrow<K> for K {
    fn idx_of(q: &K) -> u8 {
        q.idx()
    }
}
pub struct BitIter<'t, K: SmallKey> {
    bits: u64,
    i: u8,
    _p: core::marker::PhantomData<&'t K>,
}
impl<'t, K: SmallKey + 't> Iterator for BitIter<'t, K> {
    type Item = &'t K;
    fn next(&mut self) -> Option<&'t K> {
        // lowest set bit first = ascending key order; no inner scan loop, so a `for` over a set
        // unrolls to exactly its number of elements
        if self.bits == 0 {
            return None;
        }
        let i = self.bits.trailing_zeros() as usize;
        self.bits &= self.bits - 1;
        Some(&K::table()[i])
    }
}
impl<'a, K: SmallKey> IntoIterator for &'a BTreeSet<K> {
    type Item = &'a K;
    type IntoIter = BitIter<'a, K>;
    fn into_iter(self) -> BitIter<'a, K> {
        self.iter()
    }
}
impl<K: SmallKey> FromIterator<K> for BTreeSet<K> {
    fn from_iter<I: IntoIterator<Item = K>>(it: I) -> Self {
        let mut s = BTreeSet::default();
        for k in it {
            s.insert(k);
        }
        s
    }
}
impl<K: SmallKey> Extend<K> for BTreeSet<K> {
    fn extend<I: IntoIterator<Item = K>>(&mut self, it: I) {
        for k in it {
            self.insert(k);
        }
    }
}
impl<K: SmallKey> PartialEq for BTreeSet<K> {
    fn eq(&self, o: &Self) -> bool {
        self.bits == o.bits
    }
}
impl<K: SmallKey> Eq for BTreeSet<K> {}
impl<K: SmallKey> core::fmt::Debug for BTreeSet<K> {
    fn fmt(&self, _f: &mut core::fmt::Formatter<'_>) -> core::fmt::Result {
        Ok(())
    }
}
impl<'a, K: SmallKey> core::ops::BitAnd<&'a BTreeSet<K>> for &'a BTreeSet<K> {
    type Output = BTreeSet<K>;
    fn bitand(self, o: &BTreeSet<K>) -> BTreeSet<K> {
        BTreeSet::model_from_bits(self.bits & o.bits)
    }
}
impl<'a, K: SmallKey> core::ops::BitOr<&'a BTreeSet<K>> for &'a BTreeSet<K> {
    type Output = BTreeSet<K>;
    fn bitor(self, o: &BTreeSet<K>) -> BTreeSet<K> {
        BTreeSet::model_from_bits(self.bits | o.bits)
    }
}
impl<'a, K: SmallKey> core::ops::Sub<&'a BTreeSet<K>> for &'a BTreeSet<K> {
    type Output = BTreeSet<K>;
    fn sub(self, o: &BTreeSet<K>) -> BTreeSet<K> {
        BTreeSet::model_from_bits(self.bits & !o.bits)
    }
}
impl<K: SmallKey, const M: usize> From<[K; M]> for BTreeSet<K> {
    fn from(a: [K; M]) -> Self {
        let mut s = BTreeSet::default();
        for k in a {
            s.insert(k);
        }
        s
    }
}
