// Model of std::collections::BTreeSet for keys from a small fixed vocabulary: a bitmask.
// Far cheaper for the solver than the sorted-array model (no symbolic insertion shifts), usable
// when the sliced code only inserts, removes, tests, iterates, extends and compares sets.
// The key type implements `SmallKey` (index < 16, monotone w.r.t. Ord so iteration stays in
// ascending key order).  Iterators yield keys BY VALUE (K: Copy); code that needs `&K` items
// (e.g. `.copied()`) would not compile against this model and needs the sorted-array one.
pub trait SmallKey: Copy {
    fn idx(&self) -> u8;
    fn from_idx(i: u8) -> Self;
    const N: u8;
}

#[derive(Clone, Copy)]
pub struct BTreeSet<K: SmallKey> {
    pub bits: u16,
    _p: core::marker::PhantomData<K>,
}
impl<K: SmallKey> Default for BTreeSet<K> {
    fn default() -> Self {
        BTreeSet { bits: 0, _p: core::marker::PhantomData }
    }
}
impl<K: SmallKey> BTreeSet<K> {
    pub fn new() -> Self {
        Self::default()
    }
    pub fn model_from_bits(bits: u16) -> Self {
        BTreeSet { bits, _p: core::marker::PhantomData }
    }
    pub fn insert(&mut self, k: K) -> bool {
        let m = 1u16 << k.idx();
        let fresh = self.bits & m == 0;
        self.bits |= m;
        fresh
    }
    pub fn remove<Q: SmallKeyRef<K>>(&mut self, k: Q) -> bool {
        let m = 1u16 << k.key_idx();
        let had = self.bits & m != 0;
        self.bits &= !m;
        had
    }
    pub fn contains<Q: SmallKeyRef<K>>(&self, k: Q) -> bool {
        self.bits & (1u16 << k.key_idx()) != 0
    }
    pub fn len(&self) -> usize {
        self.bits.count_ones() as usize
    }
    pub fn is_empty(&self) -> bool {
        self.bits == 0
    }
    pub fn clear(&mut self) {
        self.bits = 0;
    }
    pub fn iter(&self) -> BitIter<K> {
        BitIter { bits: self.bits, i: 0, _p: core::marker::PhantomData }
    }
    pub fn is_subset(&self, o: &Self) -> bool {
        self.bits & !o.bits == 0
    }
    pub fn is_superset(&self, o: &Self) -> bool {
        o.bits & !self.bits == 0
    }
    pub fn is_disjoint(&self, o: &Self) -> bool {
        self.bits & o.bits == 0
    }
    pub fn intersection(&self, o: &Self) -> BitIter<K> {
        BitIter { bits: self.bits & o.bits, i: 0, _p: core::marker::PhantomData }
    }
    pub fn difference(&self, o: &Self) -> BitIter<K> {
        BitIter { bits: self.bits & !o.bits, i: 0, _p: core::marker::PhantomData }
    }
    pub fn union(&self, o: &Self) -> BitIter<K> {
        BitIter { bits: self.bits | o.bits, i: 0, _p: core::marker::PhantomData }
    }
    /// moves all elements of `o` into self, leaving `o` empty
    pub fn append(&mut self, o: &mut Self) {
        self.bits |= o.bits;
        o.bits = 0;
    }
}
/// lookups accept the key or a reference to it (std takes `&Q where K: Borrow<Q>`)
pub trait SmallKeyRef<K: SmallKey> {
    fn key_idx(&self) -> u8;
}
impl<K: SmallKey> SmallKeyRef<K> for K {
    fn key_idx(&self) -> u8 {
        self.idx()
    }
}
impl<K: SmallKey> SmallKeyRef<K> for &K {
    fn key_idx(&self) -> u8 {
        (*self).idx()
    }
}
pub struct BitIter<K: SmallKey> {
    bits: u16,
    i: u8,
    _p: core::marker::PhantomData<K>,
}
impl<K: SmallKey> Iterator for BitIter<K> {
    type Item = K;
    fn next(&mut self) -> Option<K> {
        while self.i < K::N {
            let i = self.i;
            self.i += 1;
            if self.bits & (1u16 << i) != 0 {
                return Some(K::from_idx(i));
            }
        }
        None
    }
}
impl<K: SmallKey> FromIterator<K> for BTreeSet<K> {
    fn from_iter<I: IntoIterator<Item = K>>(it: I) -> Self {
        let mut s = BTreeSet::default();
        for k in it {
            s.insert(k);
        }
        s
    }
}
impl<K: SmallKey> Extend<K> for BTreeSet<K> {
    fn extend<I: IntoIterator<Item = K>>(&mut self, it: I) {
        for k in it {
            self.insert(k);
        }
    }
}
impl<K: SmallKey> PartialEq for BTreeSet<K> {
    fn eq(&self, o: &Self) -> bool {
        self.bits == o.bits
    }
}
impl<K: SmallKey> Eq for BTreeSet<K> {}
impl<K: SmallKey> core::fmt::Debug for BTreeSet<K> {
    fn fmt(&self, _f: &mut core::fmt::Formatter<'_>) -> core::fmt::Result {
        Ok(())
    }
}
impl<'a, K: SmallKey> core::ops::BitAnd<&'a BTreeSet<K>> for &'a BTreeSet<K> {
    type Output = BTreeSet<K>;
    fn bitand(self, o: &BTreeSet<K>) -> BTreeSet<K> {
        BTreeSet::model_from_bits(self.bits & o.bits)
    }
}
impl<'a, K: SmallKey> core::ops::BitOr<&'a BTreeSet<K>> for &'a BTreeSet<K> {
    type Output = BTreeSet<K>;
    fn bitor(self, o: &BTreeSet<K>) -> BTreeSet<K> {
        BTreeSet::model_from_bits(self.bits | o.bits)
    }
}
impl<'a, K: SmallKey> core::ops::Sub<&'a BTreeSet<K>> for &'a BTreeSet<K> {
    type Output = BTreeSet<K>;
    fn sub(self, o: &BTreeSet<K>) -> BTreeSet<K> {
        BTreeSet::model_from_bits(self.bits & !o.bits)
    }
}
