//! Environment model of the `tracing` crate for solver runs: every event/span macro has an
//! empty body (its arguments are type-checked lazily inside a never-called closure so that
//! bindings stay "used", but nothing is evaluated), spans are unit values.
//! Reason: the real crate reaches thread_local!/catch_unwind which Kani 0.68 cannot compile
//! (DESIGN.md F2) and formatting is not the subject of any property.
pub use tracing_attributes::instrument;

#[derive(Clone, Copy, Debug, PartialEq, Eq, PartialOrd, Ord, Hash)]
pub struct Level(u8);
impl Level {
    pub const ERROR: Level = Level(1);
    pub const WARN: Level = Level(2);
    pub const INFO: Level = Level(3);
    pub const DEBUG: Level = Level(4);
    pub const TRACE: Level = Level(5);
}

#[derive(Clone, Debug, Default)]
pub struct Span;
pub mod span {
    pub use super::Span;
    pub struct Entered<'a>(pub(crate) core::marker::PhantomData<&'a ()>);
    pub struct EnteredSpan;
    #[derive(Clone, Debug, PartialEq, Eq, Hash)]
    pub struct Id;
}
impl Span {
    pub fn current() -> Span { Span }
    pub fn none() -> Span { Span }
    pub fn enter(&self) -> span::Entered<'_> { span::Entered(core::marker::PhantomData) }
    pub fn entered(self) -> span::EnteredSpan { span::EnteredSpan }
    pub fn in_scope<F: FnOnce() -> T, T>(&self, f: F) -> T { f() }
    pub fn record<Q: ?Sized, V>(&self, _field: &Q, _value: V) -> &Self { self }
    pub fn is_disabled(&self) -> bool { true }
    pub fn is_none(&self) -> bool { true }
    pub fn id(&self) -> Option<span::Id> { None }
}

pub mod field {
    #[derive(Clone, Copy, Debug)]
    pub struct Empty;
    pub fn display<T>(t: T) -> T { t }
    pub fn debug<T>(t: T) -> T { t }
}

pub trait Instrument: Sized {
    fn instrument(self, _span: Span) -> Self { self }
    fn in_current_span(self) -> Self { self }
}
impl<T: Sized> Instrument for T {}

pub mod instrument_mod {}

#[macro_export]
macro_rules! __verif_noop { ($($t:tt)*) => { () }; }

#[macro_export] macro_rules! event { ($($t:tt)*) => { () }; }
#[macro_export] macro_rules! trace { ($($t:tt)*) => { () }; }
#[macro_export] macro_rules! debug { ($($t:tt)*) => { () }; }
#[macro_export] macro_rules! info { ($($t:tt)*) => { () }; }
#[macro_export] macro_rules! warn { ($($t:tt)*) => { () }; }
#[macro_export] macro_rules! error { ($($t:tt)*) => { () }; }
#[macro_export] macro_rules! enabled { ($($t:tt)*) => { false }; }
#[macro_export] macro_rules! event_enabled { ($($t:tt)*) => { false }; }
#[macro_export] macro_rules! span_enabled { ($($t:tt)*) => { false }; }
#[macro_export] macro_rules! span { ($($t:tt)*) => { $crate::Span }; }
#[macro_export] macro_rules! trace_span { ($($t:tt)*) => { $crate::Span }; }
#[macro_export] macro_rules! debug_span { ($($t:tt)*) => { $crate::Span }; }
#[macro_export] macro_rules! info_span { ($($t:tt)*) => { $crate::Span }; }
#[macro_export] macro_rules! warn_span { ($($t:tt)*) => { $crate::Span }; }
#[macro_export] macro_rules! error_span { ($($t:tt)*) => { $crate::Span }; }
