"""Rust-aware item extractor.

Tokenises just enough Rust (line/block comments incl. nesting, string / raw string / byte string
literals, char literals vs lifetimes) to match braces reliably, then extracts named items by
brace matching.  The extracted text is returned unchanged (attributes and doc comments directly
above the item included).

Item selectors (strings):
    fn NAME                      free function at any nesting level (first match)
    struct NAME | enum NAME | const NAME | static NAME | type NAME | trait NAME
    impl TYPE                    the whole inherent impl block(s) of TYPE (all of them, in order)
    impl TRAIT for TYPE          that trait impl block
    impl TYPE::fn NAME           one method out of the inherent impl(s) of TYPE
    impl TRAIT for TYPE::fn NAME one method out of a trait impl
    mod NAME                     a whole inline module
    consts PREFIX                every const item whose name starts with PREFIX
    stmt REGEX                   the single statement (to its terminating `;`) where REGEX matches
"""
import hashlib
import re


class SliceError(Exception):
    pass


def _scan(src):
    """Return a list `code` of same length as src where every char that is inside a comment,
    string or char literal is replaced by a space (newlines kept).  Braces in `code` are
    therefore structural."""
    n = len(src)
    out = list(src)
    i = 0
    while i < n:
        c = src[i]
        if c == '/' and i + 1 < n and src[i + 1] == '/':
            j = src.find('\n', i)
            if j < 0:
                j = n
            for k in range(i, j):
                out[k] = ' '
            i = j
        elif c == '/' and i + 1 < n and src[i + 1] == '*':
            depth = 1
            j = i + 2
            while j < n and depth:
                if src.startswith('/*', j):
                    depth += 1
                    j += 2
                elif src.startswith('*/', j):
                    depth -= 1
                    j += 2
                else:
                    j += 1
            for k in range(i, j):
                if out[k] != '\n':
                    out[k] = ' '
            i = j
        elif c == '"' or (c in 'br' and _is_str_start(src, i)):
            j = _skip_string(src, i)
            for k in range(i, j):
                if out[k] != '\n':
                    out[k] = ' '
            i = j
        elif c == "'":
            j = _skip_char_or_lifetime(src, i)
            if j is not None:
                for k in range(i, j):
                    out[k] = ' '
                i = j
            else:
                i += 1
        else:
            i += 1
    return ''.join(out)


def _is_str_start(src, i):
    # b"..", r"..", r#".."#, br".."  -- but only if not part of an identifier
    if i > 0 and (src[i - 1].isalnum() or src[i - 1] == '_'):
        return False
    m = re.match(r'(b?r#*"|b")', src[i:i + 12])
    return bool(m)


def _skip_string(src, i):
    n = len(src)
    m = re.match(r'b?r(#*)"', src[i:i + 40])
    if m:
        hashes = m.group(1)
        end = '"' + hashes
        j = src.find(end, i + len(m.group(0)))
        if j < 0:
            return n
        return j + len(end)
    # normal or byte string
    j = i
    if src[j] == 'b':
        j += 1
    j += 1  # opening quote
    while j < n:
        if src[j] == '\\':
            j += 2
        elif src[j] == '"':
            return j + 1
        else:
            j += 1
    return n


def _skip_char_or_lifetime(src, i):
    # 'a' / '\n' / '\u{..}' are char literals; 'a (no closing quote right after) is a lifetime
    n = len(src)
    if i + 1 >= n:
        return None
    if src[i + 1] == '\\':
        j = src.find("'", i + 2)
        # handle '\''
        if j == i + 2:
            j = src.find("'", i + 3)
        return (j + 1) if j > 0 else None
    # a single (possibly multi-byte) char followed by '
    if i + 2 < n and src[i + 2] == "'":
        return i + 3
    return None


def _match_brace(code, open_idx):
    depth = 0
    for j in range(open_idx, len(code)):
        ch = code[j]
        if ch == '{':
            depth += 1
        elif ch == '}':
            depth -= 1
            if depth == 0:
                return j
    raise SliceError('unbalanced braces')


def _item_start(src, code, kw_idx):
    """Walk back from the keyword over visibility/qualifiers on the same logical item and over
    directly preceding attribute / doc-comment lines."""
    # start of the line containing kw
    ls = src.rfind('\n', 0, kw_idx) + 1
    start = ls
    # include preceding attribute and doc lines
    while start > 0:
        pe = start - 1
        ps = src.rfind('\n', 0, pe) + 1
        line = src[ps:pe].strip()
        if line.startswith('#[') or line.startswith('///') or line.startswith('#!['):
            start = ps
        elif line.endswith(']') and _in_multiline_attr(src, ps):
            # tail of a multi-line attribute: walk up to its start
            q = ps
            while q > 0 and not src[q:].lstrip().startswith('#['):
                q = src.rfind('\n', 0, q - 1) + 1
            start = q
        else:
            break
    return start


def _in_multiline_attr(src, ps):
    # crude: look upwards up to 12 lines for a line starting with '#[' that has no closing ']'
    q = ps
    for _ in range(60):
        if q <= 0:
            return False
        pe = q - 1
        q = src.rfind('\n', 0, pe) + 1
        line = src[q:pe].strip()
        if line.startswith('#['):
            return line.count('[') > line.count(']')
        if line.endswith(';') or line.endswith('}') or line.endswith('{'):
            return False
    return False


def _item_end(code, kw_idx):
    """End index (exclusive) of the item whose keyword is at kw_idx: up to the matching '}' of
    its first structural '{', or to the first ';' if that comes first (at depth 0 of () and [])."""
    depth_par = 0
    j = kw_idx
    n = len(code)
    while j < n:
        ch = code[j]
        if ch in '([':
            depth_par += 1
        elif ch in ')]':
            depth_par -= 1
        elif ch == ';' and depth_par == 0:
            return j + 1
        elif ch == '{' and depth_par == 0:
            e = _match_brace(code, j)
            return e + 1
        j += 1
    raise SliceError('item end not found')


_WS = r'\s+'


def _find_simple(src, code, kw, name, lo=0, hi=None):
    hi = len(code) if hi is None else hi
    if kw == 'fn':
        pat = re.compile(r'\bfn\s+' + re.escape(name) + r'\b\s*[<(]')
    elif kw == 'macro_rules':
        pat = re.compile(r'\bmacro_rules!\s*' + re.escape(name) + r'\b')
    else:
        pat = re.compile(r'\b' + kw + r'\s+' + re.escape(name) + r'\b')
    res = []
    for m in pat.finditer(code, lo, hi):
        s = _item_start(src, code, m.start())
        s = max(s, lo)
        e = _item_end(code, m.start())
        res.append((s, e))
    return res


def _norm(s):
    return re.sub(r'\s+', ' ', s.strip())


def _find_impls(src, code, header):
    """header: 'TYPE' or 'TRAIT for TYPE'.  Generic parameters in the source are tolerated:
    matching is done on the impl header with generics `<...>` and where-clauses stripped."""
    res = []
    for m in re.finditer(r'\bimpl\b', code):
        # header text up to first structural '{'
        ob = code.find('{', m.end())
        if ob < 0:
            continue
        semi = code.find(';', m.end())
        if 0 <= semi < ob:
            continue
        hdr = code[m.end():ob]
        hdr = re.sub(r'\bwhere\b.*', '', hdr, flags=re.S)
        # the impl's own generic parameter list `impl<T: ..>` is dropped first
        hdr = hdr.strip()
        if hdr.startswith('<'):
            depth = 0
            for k, ch in enumerate(hdr):
                if ch == '<':
                    depth += 1
                elif ch == '>':
                    depth -= 1
                    if depth == 0:
                        hdr = hdr[k + 1:]
                        break
        full = _norm(hdr)
        h = _strip_generics(hdr)
        h = re.sub(r"'\w+", '', h)
        h = re.sub(r'&\s*(mut\s+)?', '', h)
        h = _norm(h)
        want = _norm(header)
        if full == want or (('<' not in want) and h == want):
            s = _item_start(src, code, m.start())
            e = _match_brace(code, ob) + 1
            res.append((s, e, ob))
    return res


def _strip_generics(h):
    out = []
    depth = 0
    for ch in h:
        if ch == '<':
            depth += 1
        elif ch == '>':
            depth -= 1
        elif depth == 0:
            out.append(ch)
    return ''.join(out)


class Source:
    def __init__(self, path):
        self.path = path
        with open(path, encoding='utf-8') as f:
            self.src = f.read()
        self.code = _scan(self.src)

    def extract(self, selector):
        """Return list of text chunks for the selector (usually one)."""
        src, code = self.src, self.code
        sel = selector.strip()
        if sel.startswith('impl '):
            if '::fn ' in sel:
                head, fname = sel[5:].split('::fn ')
                impls = _find_impls(src, code, head)
                if not impls:
                    raise SliceError(f'{self.path}: impl `{head}` not found')
                for (s, e, ob) in impls:
                    hits = _find_simple(src, code, 'fn', fname.strip(), ob + 1, e - 1)
                    if hits:
                        s2, e2 = hits[0]
                        return [src[s2:e2]]
                raise SliceError(f'{self.path}: fn `{fname}` not found in impl `{head}`')
            impls = _find_impls(src, code, sel[5:])
            if not impls:
                raise SliceError(f'{self.path}: impl `{sel[5:]}` not found')
            return [src[s:e] for (s, e, _) in impls]
        m = re.match(r'stmt(?:#(\d+)/(\d+))?\s+(.+)$', sel, re.S)
        if m:
            # one statement: from the start of the line where REGEX matches (in code, not in
            # comments/strings) to the first `;` at nesting depth 0 after it.  `stmt#i/n` picks
            # the i-th (0-based) of exactly n matches; plain `stmt` requires a unique match.
            rx = m.group(3)
            allm = list(re.finditer(rx, code))
            if not allm:
                raise SliceError(f'{self.path}: statement /{rx}/ not found')
            if m.group(1) is None:
                if len(allm) != 1:
                    raise SliceError(f'{self.path}: statement /{rx}/ is ambiguous')
                mm = allm[0]
            else:
                i, n = int(m.group(1)), int(m.group(2))
                if len(allm) != n:
                    raise SliceError(f'{self.path}: statement /{rx}/ matches {len(allm)} times, expected {n}')
                mm = allm[i]
            s0 = src.rfind('\n', 0, mm.start()) + 1
            depth = 0
            j = mm.start()
            while j < len(code):
                ch = code[j]
                if ch in '([{':
                    depth += 1
                elif ch in ')]}':
                    depth -= 1
                    if depth < 0:
                        raise SliceError('statement end not found')
                elif ch == ';' and depth == 0:
                    return [src[s0:j + 1]]
                j += 1
            raise SliceError('statement end not found')
        m = re.match(r'consts\s+(\w+)$', sel)
        if m:
            # every `const <PREFIX>...` item, in source order
            out = []
            for mm in re.finditer(r'\bconst\s+(' + re.escape(m.group(1)) + r'\w*)\s*:', code):
                s0 = _item_start(src, code, mm.start())
                e0 = _item_end(code, mm.start())
                out.append(src[s0:e0])
            if not out:
                raise SliceError(f'{self.path}: no const with prefix `{m.group(1)}`')
            return out
        m = re.match(r'(fn|struct|enum|const|static|type|trait|mod|union|macro_rules)\s+(\w+)$', sel)
        if not m:
            raise SliceError(f'bad selector `{selector}`')
        hits = _find_simple(src, code, m.group(1), m.group(2))
        if not hits:
            raise SliceError(f'{self.path}: `{sel}` not found')
        s, e = hits[0]
        return [src[s:e]]


def extract(path, selector):
    return Source(path).extract(selector)


def sha(text):
    return hashlib.sha256(text.encode()).hexdigest()[:16]


if __name__ == '__main__':
    import sys
    for t in extract(sys.argv[1], sys.argv[2]):
        print(t)
        print('// ---- sha', sha(t))
