"""Core of the solver-based checking machinery.

Two engines (DESIGN.md §2):
  klib   -- Kani over the *real* crate, through an overlay copy of /repo with logging crates
            replaced by empty models and harness modules injected as child modules (EOF append).
  kslice -- real item text extracted from /repo by slicer.py, compiled unchanged in a small crate
            against model types, decided by Kani.

Every verdict is CBMC's (through Kani 0.68).  Exit status of a check:
  0 all harnesses SUCCESSFUL, all cover witnesses SATISFIED, twin harness FAILED as it must
  1 a property assertion failed and the counterexample was replayed natively (VIOLATION line)
  2 INCONCLUSIVE: build error / anchor drift / timeout / OOM / unwinding assertion / vacuous
"""
import concurrent.futures as cf
import fcntl
import hashlib
import json
import os
import re
import resource
import shutil
import subprocess
import sys
import time

from . import slicer

REPO = os.environ.get('VERIF_REPO', '/repo')
VERIF = os.path.dirname(os.path.dirname(os.path.abspath(__file__)))
SCRATCH = os.environ.get('VERIF_SCRATCH', '/var/tmp/kanidm-verif')
CACHE = os.path.join(VERIF, '.cache')

ENV = dict(os.environ)
ENV.update({
    'CARGO_NET_OFFLINE': 'true',
    'RUSTFLAGS': '--cap-lints=warn',
    'CARGO_TERM_COLOR': 'never',
})
# cargo-kani selects its own pinned toolchain; make sure nothing overrides it.
ENV.pop('RUSTUP_TOOLCHAIN', None)


def log(*a):
    print(*a, flush=True)


# ----------------------------------------------------------------------------------------------
# overlay (klib)
# ----------------------------------------------------------------------------------------------

MANIFEST_REWRITES = {
    'server/lib/Cargo.toml': [
        (r'^sketching = \{ workspace = true \}$',
         'sketching = { path = "%VERIF%/models/sketching" }'),
        (r'^tracing = \{ workspace = true, features = \["attributes"\] \}$',
         'tracing = { path = "%VERIF%/models/tracing", features = ["attributes"] }'),
    ],
    'libs/crypto/Cargo.toml': [
        (r'^tracing = \{ workspace = true \}$',
         'tracing = { path = "%VERIF%/models/tracing" }'),
    ],
}


class Inconclusive(Exception):
    pass


class FamilyLock:
    def __init__(self, family):
        os.makedirs(CACHE, exist_ok=True)
        self.path = os.path.join(CACHE, f'{family}.lock')

    def __enter__(self):
        self.f = open(self.path, 'w')
        fcntl.flock(self.f, fcntl.LOCK_EX)
        return self

    def __exit__(self, *a):
        fcntl.flock(self.f, fcntl.LOCK_UN)
        self.f.close()


def prepare_overlay(family):
    """rsync /repo -> overlay; rewrite manifests (logging crates -> empty models)."""
    ov = os.path.join(SCRATCH, family)
    os.makedirs(ov, exist_ok=True)
    subprocess.run(['rsync', '-a', '--delete', '--exclude', '/target', '--exclude', '.git',
                    REPO + '/', ov + '/'], check=True)
    for rel, rules in MANIFEST_REWRITES.items():
        p = os.path.join(ov, rel)
        if not os.path.exists(p):
            continue
        st = os.stat(p)
        lines = open(p).read().split('\n')
        hit = 0
        for i, ln in enumerate(lines):
            for pat, rep in rules:
                if re.match(pat, ln):
                    lines[i] = rep.replace('%VERIF%', VERIF)
                    hit += 1
        if hit != len(rules):
            raise Inconclusive(f'anchor-drift: manifest rewrite of {rel} matched {hit}/{len(rules)} rules')
        open(p, 'w').write('\n'.join(lines))
        os.utime(p, (st.st_atime, st.st_mtime))
    lock = os.path.join(REPO, 'Cargo.lock')
    if os.path.exists(lock):
        shutil.copy(lock, os.path.join(ov, 'Cargo.lock'))
    return ov


HASHED_TOPS = ('server/lib', 'libs/crypto', 'proto', 'libs/profiles')
TOUCH_ON_CHANGE = ('server/lib/src/lib.rs', 'libs/crypto/src/lib.rs', 'proto/src/lib.rs')


def inject(ov, injects, family):
    """Append `#[cfg(kani)] #[path=..] mod ..;` lines at EOF of overlay files (a child module sees
    every private item of the file it is appended to).  File mtimes are kept (+1 s) so an
    unchanged tree is a no-op rebuild; a content hash over the crate sources and harness files
    forces a rebuild whenever anything differs from the last build, whatever the mtimes say."""
    for rel, hfile, modname, vis in injects:
        p = os.path.join(ov, rel)
        if not os.path.exists(p):
            raise Inconclusive(f'anchor-drift: {rel} does not exist in {REPO}')
        st = os.stat(p)
        with open(p, 'a') as f:
            f.write(f'\n#[cfg(kani)] #[path = "{hfile}"] {vis + " " if vis else ""}mod {modname};\n')
        os.utime(p, (st.st_atime, st.st_mtime + 1))
    h = hashlib.sha256()
    for rel, hfile, modname, vis in sorted(injects):
        h.update(rel.encode())
        h.update(open(hfile, 'rb').read())
    hd = os.path.join(ov, '.verif_harness')
    if os.path.isdir(hd):
        for fn in sorted(os.listdir(hd)):
            h.update(open(os.path.join(hd, fn), 'rb').read())
    for top in HASHED_TOPS:
        for root, dirs, files in os.walk(os.path.join(ov, top)):
            dirs.sort()
            for fn in sorted(files):
                if fn.endswith(('.rs', '.toml')):
                    fp = os.path.join(root, fn)
                    h.update(fp.encode())
                    h.update(open(fp, 'rb').read())
    digest = h.hexdigest()
    stamp = os.path.join(CACHE, f'{family}.srchash')
    old = open(stamp).read() if os.path.exists(stamp) else ''
    if old != digest:
        for rel in TOUCH_ON_CHANGE:
            p = os.path.join(ov, rel)
            if os.path.exists(p):
                os.utime(p, None)
        open(stamp, 'w').write(digest)
    return ov


def remove_overlay(family):
    shutil.rmtree(os.path.join(SCRATCH, family), ignore_errors=True)


# ----------------------------------------------------------------------------------------------
# slice crates (kslice)
# ----------------------------------------------------------------------------------------------

def prepare_slice(prop, pi, spec, hdir):
    """Copy harness/<ID>/<crate dir> to scratch, generate src/<slice>.rs files from /repo."""
    dst = os.path.join(SCRATCH, f'slice-{prop}-{pi}')
    shutil.rmtree(dst, ignore_errors=True)
    shutil.copytree(os.path.join(hdir, spec.get('crate', 'crate')), dst)
    lock = os.path.join(hdir, spec.get('crate', 'crate'), 'Cargo.lock')
    funcs = []
    for out_name, items in spec['slice'].items():
        chunks = []
        for it in items:
            if 'raw' in it:
                chunks.append(it['raw'] + '\n')
                continue
            path = os.path.join(REPO, it['file'])
            if not os.path.exists(path):
                raise Inconclusive(f"anchor-drift: {it['file']} missing")
            if it['item'] == '*':
                text = open(path).read()
                texts = [text]
            else:
                try:
                    texts = slicer.extract(path, it['item'])
                except slicer.SliceError as e:
                    raise Inconclusive(f'anchor-drift: {e}')
            for t in texts:
                if it.get('strip_attrs'):
                    t = re.sub(r'^\s*#\[instrument[^\]]*\]\s*$', '', t, flags=re.M)
                if it.get('replace'):
                    if it['replace'][0] not in t:
                        raise Inconclusive(f"anchor-drift: {it['file']} :: {it['item']}: text to adapt not found")
                    t = t.replace(it['replace'][0], it['replace'][1])
                if it.get('wrap'):
                    t = it['wrap'].replace('%ITEM%', t)
                chunks.append(f"// ---- {it['file']} :: {it['item']}\n{t}\n")
                funcs.append({'file': it['file'], 'item': it['item'], 'sha256_16': slicer.sha(t)})
        with open(os.path.join(dst, 'src', out_name), 'w') as f:
            f.write('\n'.join(chunks))
    return dst, funcs


# ----------------------------------------------------------------------------------------------
# running kani
# ----------------------------------------------------------------------------------------------

def _limits(mem_gb):
    def f():
        b = int(mem_gb * (1 << 30))
        resource.setrlimit(resource.RLIMIT_AS, (b, b))
        os.setsid()
    return f


def kani_cmd(package, target_dir, extra):
    cmd = ['cargo', 'kani']
    if package:
        cmd += ['-p', package]
    cmd += ['--target-dir', target_dir, '-Z', 'stubbing', '-Z', 'unstable-options'] + extra
    return cmd


RE_SUMMARY = re.compile(r'\*\* (\d+) of (\d+) failed(?: \((\d+) (?:unreachable|undetermined)[^)]*\))?')
RE_COVER = re.compile(r'\*\* (\d+) of (\d+) cover properties satisfied')
RE_TIME = re.compile(r'Verification Time: ([0-9.]+)s')


RE_THREAD_CHECK = re.compile(r'^Thread (\d+): Checking harness (\S+?)\.\.\.\s*$')
RE_THREAD_HDR = re.compile(r'^Thread (\d+):\s*$')
RE_PLAIN_CHECK = re.compile(r'^Checking harness (\S+?)\.\.\.\s*$')


def split_blocks(out):
    """Split the output of one `cargo kani -j N --output-format terse` run into per-harness
    result blocks (keyed by fully-qualified harness name)."""
    cur = {}        # thread -> harness
    blocks = {}     # harness -> text
    active = None   # harness whose block we are currently inside
    for ln in out.split('\n'):
        m = RE_THREAD_CHECK.match(ln)
        if m:
            cur[m.group(1)] = m.group(2)
            blocks.setdefault(m.group(2), '')
            active = None
            continue
        m = RE_PLAIN_CHECK.match(ln)
        if m:
            cur['0'] = m.group(1)
            blocks.setdefault(m.group(1), '')
            active = m.group(1)
            continue
        m = RE_THREAD_HDR.match(ln)
        if m:
            active = cur.get(m.group(1))
            continue
        if ln.startswith('Manual Harness Summary') or ln.startswith('Complete - '):
            active = None
            continue
        if active is not None:
            blocks[active] += ln + '\n'
            if ln.startswith('Verification Time:'):
                active = None
    return blocks


def parse_block(txt):
    r = {'status': None, 'checks': 0, 'failed': 0, 'covers': 0, 'covers_sat': 0,
         'failed_checks': [], 'solver_s': None, 'unwind_fail': False, 'timed_out': False}
    if 'VERIFICATION:- SUCCESSFUL' in txt:
        r['status'] = 'SUCCESSFUL'
    elif 'VERIFICATION:- FAILED' in txt:
        r['status'] = 'FAILED'
    m = RE_SUMMARY.search(txt)
    if m:
        r['failed'] = int(m.group(1))
        r['checks'] = int(m.group(2))
    m = RE_COVER.search(txt)
    if m:
        r['covers_sat'] = int(m.group(1))
        r['covers'] = int(m.group(2))
    m = RE_TIME.search(txt)
    if m:
        r['solver_s'] = float(m.group(1))
    for m in re.finditer(r'Failed Checks: (.*)\n\s*File: "([^"]*)", line (\d+), in (\S+)', txt):
        desc, f, line, fn = m.groups()
        r['failed_checks'].append({'desc': desc.strip(), 'loc': f'{os.path.basename(f)}:{line} in {fn}'})
    for m in re.finditer(r'Failed Checks: (.*)\n(?!\s*File:)', txt):
        r['failed_checks'].append({'desc': m.group(1).strip(), 'loc': ''})
    for c in r['failed_checks']:
        if 'unwinding assertion' in c['desc']:
            r['unwind_fail'] = True
    if re.search(r'timed out|Timeout|TIMEOUT', txt):
        r['timed_out'] = True
    if re.search(r'Status: ERROR|CBMC failed|out of memory|std::bad_alloc|Killed|SIGKILL|SIGABRT|unexpectedly', txt):
        r['error'] = True
    return r


def run_kani(cwd, package, target_dir, names, jobs, harness_timeout, mem_gb, total_timeout,
             extra=None, logfile=None, exact=False, cbmc_args=None):
    """One cargo-kani invocation deciding all `names` (substring filters), `jobs` in parallel."""
    t0 = time.time()
    args = []
    for n in names:
        args += ['--harness', n]
    if exact:
        args += ['--exact']
    args += ['--harness-timeout', f'{int(harness_timeout)}s']
    if extra is None:
        args += ['-j', str(jobs), '--output-format', 'terse']
    else:
        args += extra
    cmd = kani_cmd(package, target_dir, args)
    if cbmc_args:
        cmd += ['--cbmc-args'] + cbmc_args
    timed_out = False
    try:
        p = subprocess.Popen(cmd, cwd=cwd, env=ENV, stdout=subprocess.PIPE,
                             stderr=subprocess.STDOUT, text=True, preexec_fn=_limits(mem_gb))
        try:
            out, _ = p.communicate(timeout=total_timeout)
            rc = p.returncode
        except subprocess.TimeoutExpired:
            try:
                os.killpg(p.pid, 9)
            except ProcessLookupError:
                pass
            out, _ = p.communicate()
            rc = -9
            timed_out = True
    except Exception as e:  # pragma: no cover
        out, rc = f'engine error: {e}', -1
    if logfile:
        os.makedirs(os.path.dirname(logfile), exist_ok=True)
        with open(logfile, 'w') as f:
            f.write(out)
    return {'out': out, 'rc': rc, 'wall_s': time.time() - t0, 'timed_out': timed_out,
            'built': 'Checking harness' in out or 'Manual Harness Summary' in out
                     or 'No proof harnesses' in out}


def find_mangled(cwd, package, target_dir, names, fn_pretty, exact, logfile):
    """Compile (codegen only) and look the mangled symbol of `fn_pretty` up in Kani's
    pretty_name_map.json files."""
    args = []
    for n in names:
        args += ['--harness', n]
    if exact:
        args += ['--exact']
    args += ['--only-codegen']
    p = subprocess.run(kani_cmd(package, target_dir, args), cwd=cwd, env=ENV, stdout=subprocess.PIPE,
                       stderr=subprocess.STDOUT, text=True)
    if logfile:
        open(logfile, 'w').write(p.stdout)
    newest = None
    for root, _, files in os.walk(target_dir):
        for fn in files:
            if fn.endswith('.pretty_name_map.json'):
                fp = os.path.join(root, fn)
                if newest is None or os.path.getmtime(fp) > os.path.getmtime(newest):
                    newest = fp
    if not newest:
        return None
    try:
        d = json.load(open(newest))
    except Exception:
        return None
    if fn_pretty is None:
        return d
    for k, v in d.items():
        if v == fn_pretty:
            return k
    return None


def classify(r, expect, want_covers=None):
    """-> 'pass' | 'violation' | 'inconclusive:<why>'"""
    if r['timed_out']:
        return 'inconclusive:timeout'
    if r['status'] is None:
        if r.get('error'):
            return 'inconclusive:solver-error-or-oom'
        return 'inconclusive:no-verdict'
    if expect == 'fail':   # reachability twin: must FAIL on its final assert(false)
        if r['status'] == 'FAILED' and not r['unwind_fail']:
            return 'pass'
        return 'inconclusive:twin-did-not-fail (harness family is vacuous)'
    if r['status'] == 'SUCCESSFUL':
        if r['covers'] != r['covers_sat']:
            return 'inconclusive:vacuous (cover witness not satisfied)'
        if want_covers is not None and r['covers'] < want_covers:
            return 'inconclusive:vacuous (fewer cover witnesses than declared)'
        return 'pass'
    # FAILED
    if r['unwind_fail']:
        return 'inconclusive:unwinding-assertion'
    if r.get('error') and not r['failed_checks']:
        return 'inconclusive:solver-error-or-oom'
    if r['failed_checks']:
        return 'violation'
    return 'inconclusive:failed-without-failed-check'
