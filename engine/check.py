"""bin/check <ID> --tier quick|thorough   -- decide one property with the solver.

A property's spec (harness/<ID>/spec.json) has one or more *parts*; each part is one
cargo-kani build + run over a set of harnesses:
  engine klib   : overlay copy of /repo, harness modules appended to the anchored source files
  engine kslice : real item text sliced out of /repo into a small crate with model types
"""
import argparse
import importlib.util
import json
import os
import re
import shutil
import subprocess
import sys
import time

from . import core, slicer
from .core import log, Inconclusive, VERIF, REPO, CACHE, SCRATCH


def load_spec(prop):
    hdir = os.path.join(VERIF, 'harness', prop)
    sp = os.path.join(hdir, 'spec.json')
    if not os.path.exists(sp):
        raise SystemExit(f'no spec for {prop}')
    spec = json.load(open(sp))
    return spec, hdir


def known_findings():
    p = os.path.join(VERIF, 'known_findings.json')
    if not os.path.exists(p):
        return []
    return json.load(open(p)).get('findings', [])


def match_known(prop, harness, failed_descs):
    """An *open* finding suppresses a violation only when the harness role matches and every
    failed assertion description is one the finding lists."""
    for f in known_findings():
        if f.get('property') != prop or f.get('status') != 'open':
            continue
        if harness.get('role') is None or harness.get('role') != f.get('role'):
            continue
        allowed = f.get('failed_assertions', [])
        if failed_descs and all(any(a in d for a in allowed) for d in failed_descs):
            return f
    return None


def functions_evidence(part):
    out = []
    for fn in part.get('functions', []):
        path = os.path.join(REPO, fn['file'])
        try:
            texts = slicer.extract(path, fn['item'])
            out.append({'file': fn['file'], 'item': fn['item'],
                        'sha256_16': slicer.sha('\n'.join(texts))})
        except Exception as e:
            raise Inconclusive(f"anchor-drift: {fn['file']} :: {fn['item']}: {e}")
    return out


def _find_playback_test(cwd, short):
    for root, dirs, files in os.walk(cwd):
        dirs[:] = [d for d in dirs if d not in ('target', '.git', 'book', 'pykanidm')]
        for fn in files:
            if fn.endswith('.rs'):
                fp = os.path.join(root, fn)
                try:
                    txt = open(fp).read()
                except Exception:
                    continue
                m = re.search(r'#\[test\]\s*fn (kani_concrete_playback_' + re.escape(short) + r'\w*)\(\) \{.*?\n\}', txt, re.S)
                if m:
                    return m.group(1), m.group(0), fp
    return None, None, None


def replay_playback(cwd, package, target_dir, hname, logdir, timeout=5400, cbmc_args=None):
    """Kani concrete playback: re-run the failing harness asking CBMC for concrete values, let
    Kani write the unit test into the (scratch copy of the) harness file, then run that test
    natively (ordinary compiled Rust, no solver).  -> (reproduced|None, test name, test text, log)"""
    short = hname.split('::')[-1]
    # Kani's playback picks the first trace it finds, which may belong to a satisfied cover
    # witness instead of the failed assertion: disable the witnesses in the scratch copies.
    for root, dirs, files in os.walk(cwd):
        dirs[:] = [d for d in dirs if d not in ('target', '.git')]
        if not (root.endswith('.verif_harness') or os.path.basename(cwd).startswith('slice-')):
            continue
        for fn in files:
            if fn.endswith('.rs'):
                fp = os.path.join(root, fn)
                txt = open(fp).read()
                if 'kani::cover!' in txt:
                    txt = txt.replace('kani::cover!', 'verif_nocover!')
                    if 'macro_rules! verif_nocover' not in txt:
                        txt = 'macro_rules! verif_nocover { ($($t:tt)*) => {}; }\n' + txt
                    open(fp, 'w').write(txt)
    core.run_kani(cwd, package, target_dir, [short], 1, timeout, 40, timeout,
                  extra=['-Z', 'concrete-playback', '--concrete-playback=inplace'],
                  logfile=os.path.join(logdir, f'playback-{short}.gen.log'), cbmc_args=cbmc_args)
    test, text, fp = _find_playback_test(cwd, short)
    if not test:
        return None, None, None, 'no concrete playback test was generated'
    env = dict(core.ENV)
    env['CARGO_TARGET_DIR'] = target_dir + '-playback'
    cmd = ['cargo', 'kani', 'playback', '-Z', 'concrete-playback']
    if package:
        cmd += ['-p', package]
    cmd += ['--', test]
    try:
        p = subprocess.run(cmd, cwd=cwd, env=env, stdout=subprocess.PIPE, stderr=subprocess.STDOUT,
                           text=True, timeout=timeout)
    except subprocess.TimeoutExpired:
        return None, test, text, 'native playback timed out'
    txt = p.stdout
    open(os.path.join(logdir, f'playback-{short}.native.log'), 'w').write(txt)
    if re.search(r'test \S*' + re.escape(test) + r' \.\.\. FAILED', txt):
        return True, test, text, txt[-3000:]
    if re.search(r'test \S*' + re.escape(test) + r' \.\.\. ok', txt):
        return False, test, text, txt[-1500:]
    return None, test, text, txt[-3000:]


def run_part(prop, pi, part, hdir, tier, seed, args, logdir):
    """-> dict(results=[...], funcs=[...], build_s=..)  (raises Inconclusive)"""
    engine = part['engine']
    family = part.get('family', f'slice-{prop}-{pi}') + os.environ.get('VERIF_FAMILY_SUFFIX', '')
    out = {'results': [], 'funcs': [], 'build_s': 0.0, 'part': part}
    with core.FamilyLock(family):
        try:
            harnesses = list(part.get('harnesses', []))
            if engine == 'klib':
                out['funcs'] = functions_evidence(part)
                cwd = core.prepare_overlay(family)
                hcopy = os.path.join(cwd, '.verif_harness')
                os.makedirs(hcopy, exist_ok=True)
                inj = []
                for i, j in enumerate(part['inject']):
                    dst = os.path.join(hcopy, prop + '_' + os.path.basename(j['file']))
                    shutil.copy2(os.path.join(hdir, j['file']), dst)
                    inj.append((j['into'], dst, j.get('mod', f'verif_{prop.lower()}_{i}'), j.get('vis', '')))
                for extra in part.get('support', []):
                    shutil.copy2(os.path.join(hdir, extra), os.path.join(hcopy, os.path.basename(extra)))
                core.inject(cwd, inj, family)
                package = part['package']
                target_dir = os.path.join(CACHE, f'kani-{family}')
            elif engine == 'kslice':
                cwd, out['funcs'] = core.prepare_slice(prop, pi, part, hdir)
                gen = part.get('generator')
                if gen:
                    s = importlib.util.spec_from_file_location(f'gen_{prop}_{pi}', os.path.join(hdir, gen))
                    mod = importlib.util.module_from_spec(s)
                    s.loader.exec_module(mod)
                    harnesses += mod.generate(os.path.join(cwd, 'src'), tier, seed)
                package = None
                target_dir = os.path.join(CACHE, f'kani-{family}')
            else:
                raise SystemExit(f'unknown engine {engine}')
            sel = [h for h in harnesses if tier in h.get('tiers', ['quick', 'thorough'])]
            if args.only:
                sel = [h for h in sel if re.search(args.only, h['name'])]
            if not sel:
                return out
            modpath = part.get('modpath', 'harness' if engine == 'kslice' else None)
            if modpath:
                names = [f"{modpath}::{h['name']}" for h in sel]
                exact = True
            else:
                names = [h['name'] for h in sel]
                exact = False
                for a in names:
                    for b in names:
                        if a != b and a in b:
                            raise SystemExit(f'harness name {a} is a substring of {b} (give the part a modpath)')
            tmo = args.timeout or part.get('timeout', {}).get(tier, 900 if tier == 'quick' else 7200)
            mem = part.get('mem_gb', {}).get(tier, 16 if tier == 'quick' else 24)
            jobs = min(args.jobs, part.get('max_jobs', {}).get(tier, args.jobs), len(sel))
            log(f'[{prop}] part {pi} ({engine}): {len(sel)} harnesses, tier {tier}, {jobs} parallel, '
                f'{tmo}s/harness, building ...')
            rec = part.get('recursion_bound')
            uws = part.get('unwindset')
            loop_args = None
            if uws:
                # per-loop unwinding bounds for library loops whose trip count the harness bounds far
                # below the crate-wide #[kani::unwind] (nested iterator adapters otherwise unroll
                # bound x bound).  Unwinding assertions stay on: a bound that is too small is
                # reported as inconclusive, never silently truncated.
                names_map = core.find_mangled(cwd, package, target_dir, names[:1], None, exact,
                                              os.path.join(logdir, f'part{pi}-codegen.log')) or {}
                ids = []
                for u in uws:
                    rx = re.compile(u['fn_regex'])
                    hit = [k for k, v in names_map.items() if v and rx.search(v)]
                    if not hit:
                        raise Inconclusive(f"unwindset: no compiled function matches {u['fn_regex']} (anchor drift?)")
                    for k in hit:
                        for li in range(int(u.get('loops', 1))):
                            ids.append(f"{k}.{li}:{int(u['bound'])}")
                loop_args = ['--unwindset', ','.join(ids)]
                log(f'[{prop}]   unwindset: {len(ids)} library loops bounded separately')
                out['loop_args'] = loop_args
            if rec:
                # CBMC cannot see the variant of a nested term as a constant and would explore every
                # arm of the recursive function down to the global unwind bound; bound the recursion
                # of that one function separately (per group of harnesses with the same true depth),
                # unwinding assertions stay on, so a bound that is too small is reported.
                mangled = core.find_mangled(cwd, package, target_dir, names[:1], rec['fn_pretty'], exact,
                                            os.path.join(logdir, f'part{pi}-codegen.log'))
                if not mangled:
                    raise Inconclusive(f"could not locate the compiled symbol of {rec['fn_pretty']} (anchor drift?)")
                groups = {}
                for h, n in zip(sel, names):
                    groups.setdefault(int(h.get('rec_depth', rec.get('default', 3))), []).append(n)
                outs, built, timed = [], True, False
                for depth, gnames in sorted(groups.items()):
                    gj = min(jobs, len(gnames))
                    log(f'[{prop}]   recursion bound {depth}: {len(gnames)} harnesses')
                    rr = core.run_kani(cwd, package, target_dir, gnames, gj, tmo, mem, exact=exact,
                                       total_timeout=tmo * ((len(gnames) + gj - 1) // gj) + 3600,
                                       logfile=os.path.join(logdir, f'part{pi}-rec{depth}.log'),
                                       cbmc_args=['--unwindset', f'{mangled}:{depth}'])
                    outs.append(rr['out'])
                    built = built and rr['built']
                    timed = timed or rr['timed_out']
                r = {'out': '\n'.join(outs), 'built': built, 'timed_out': timed}
            else:
                r = core.run_kani(cwd, package, target_dir, names, jobs, tmo, mem, exact=exact,
                                  total_timeout=tmo * ((len(sel) + jobs - 1) // jobs) + 3600,
                                  logfile=os.path.join(logdir, f'part{pi}.log'), cbmc_args=loop_args)
            m = re.search(r'Finished `\w+` profile.*? in ([0-9.]+)s', r['out'])
            out['build_s'] = float(m.group(1)) if m else 0.0
            if not r['built']:
                lines = r['out'].split('\n')
                errs = []
                for i, l in enumerate(lines):
                    if l.startswith('error') and len(errs) < 60:
                        errs += lines[i:i + 7]
                raise Inconclusive('build failed (anchor drift, or harness does not compile against the '
                                   'current tree):\n' + '\n'.join(errs))
            blocks = core.split_blocks(r['out'])
            for h in sel:
                fq = [k for k in blocks if k.split('::')[-1] == h['name']]
                if not fq:
                    res = core.parse_block('')
                    res['missing'] = True
                else:
                    res = core.parse_block(blocks[fq[0]])
                if r['timed_out'] and res['status'] is None:
                    res['timed_out'] = True
                res['name'] = h['name']
                res['fq'] = fq[0] if fq else None
                res['harness'] = h
                res['part'] = pi
                res['verdict'] = core.classify(res, h.get('expect', 'pass'), h.get('covers'))
                log(f"[{prop}]   {h['name']}: {res['verdict']}  (checks {res['checks']}, covers "
                    f"{res['covers_sat']}/{res['covers']}, solver {res['solver_s']}s)")
                out['results'].append(res)
            # ---- violations: replay before reporting
            for res in out['results']:
                if res['verdict'] != 'violation':
                    continue
                h = res['harness']
                rp = {'property': prop, 'harness': h['name'], 'tier': tier, 'engine': engine,
                      'failed_checks': res['failed_checks'], 'bounds': h.get('bounds'),
                      'role': h.get('role'), 'shape': h.get('shape')}
                kf = match_known(prop, h, [c['desc'] for c in res['failed_checks']])
                if kf:
                    rp['native_replay'] = f"not repeated: matches known finding {kf['id']} (native demonstration: {kf.get('native_demo')})"
                    reproduced = True
                elif args.no_replay:
                    rp['native_replay'] = 'skipped (--no-replay)'
                    reproduced = True
                else:
                    log(f"[{prop}] replaying counterexample of {h['name']} natively ...")
                    reproduced, test, text, txt = replay_playback(cwd, package, target_dir, h['name'], logdir, cbmc_args=out.get('loop_args'))
                    rp['native_replay'] = {'reproduced': reproduced, 'test': test, 'log_tail': txt}
                    rp['concrete_playback_test'] = text
                os.makedirs(os.path.join(VERIF, 'evidence', 'replay'), exist_ok=True)
                rpath = os.path.join(VERIF, 'evidence', 'replay', f"{prop}-{h['name']}.json")
                json.dump(rp, open(rpath, 'w'), indent=1)
                res['replay_path'] = rpath
                if reproduced is False:
                    res['verdict'] = 'inconclusive:non-reproducing counterexample (model or harness wrong)'
                elif reproduced is None:
                    res['verdict'] = 'inconclusive:replay could not be run'
            return out
        finally:
            if not args.keep:
                if engine == 'klib':
                    core.remove_overlay(family)
                else:
                    shutil.rmtree(os.path.join(SCRATCH, f'slice-{prop}-{pi}'), ignore_errors=True)


def main(argv=None):
    ap = argparse.ArgumentParser()
    ap.add_argument('prop')
    ap.add_argument('--tier', default=os.environ.get('VERIF_TIER', 'quick'))
    ap.add_argument('--jobs', type=int, default=int(os.environ.get('VERIF_JOBS', '14')))
    ap.add_argument('--only', default=None, help='regex filter on harness names (debug)')
    ap.add_argument('--keep', action='store_true', help='keep the scratch overlay (debug)')
    ap.add_argument('--no-replay', action='store_true')
    ap.add_argument('--no-evidence', action='store_true')
    ap.add_argument('--timeout', type=int, default=None, help='per-harness timeout override (debug)')
    args = ap.parse_args(argv)
    prop, tier = args.prop, args.tier
    if tier not in ('quick', 'thorough', 'probe'):
        tier = 'quick'
    seed = int(os.environ.get('VERIF_SEED', '0') or 0)
    t0 = time.time()
    spec, hdir = load_spec(prop)
    parts = spec.get('parts') or [spec]
    ev_path = os.path.join(VERIF, 'evidence', f'{prop}.json')
    logdir = os.path.join(CACHE, 'logs', prop)
    shutil.rmtree(logdir, ignore_errors=True)
    os.makedirs(logdir, exist_ok=True)
    os.makedirs(os.path.dirname(ev_path), exist_ok=True)
    results, funcs, build_s = [], [], 0.0
    problems = []
    for pi, part in enumerate(parts):
        try:
            o = run_part(prop, pi, part, hdir, tier, seed, args, logdir)
            results += o['results']
            funcs += o['funcs']
            build_s += o['build_s']
        except Inconclusive as e:
            problems.append(f'part {pi}: {e}')
    reported, known, incon = [], [], []
    for r in results:
        if r['verdict'] == 'violation':
            kf = match_known(prop, r['harness'], [c['desc'] for c in r['failed_checks']])
            if kf:
                known.append((r, kf))
            else:
                reported.append(r)
        elif r['verdict'].startswith('inconclusive'):
            incon.append(r)
    for r, kf in known:
        log(f"KNOWN-FINDING: property={prop} {kf['what']} [harness {r['name']}]")
    for r in reported:
        log(f"VIOLATION property={prop} replay={r['replay_path']}")
        for c in r['failed_checks'][:6]:
            log(f"    failed: {c['desc']} @ {c['loc']}")
    if reported:
        rc, status = 1, 'VIOLATION'
    elif incon or problems or not results:
        rc = 2
        status = 'INCONCLUSIVE: ' + '; '.join(problems + [f"{r['name']}: {r['verdict']}" for r in incon[:8]])
        if not results and not problems:
            status += 'no harness selected'
    else:
        rc, status = 0, 'PASS'
    # ---- evidence
    passed = [r for r in results if r['verdict'] == 'pass']
    obligations = sum(r['checks'] for r in results)
    discharged = sum(r['checks'] - r['failed'] for r in results if r['status'])
    nontrivial = [r for r in passed if r['harness'].get('expect', 'pass') == 'pass'
                  and r['covers'] > 0 and r['covers'] == r['covers_sat']]
    samples = []
    for r in sorted(results, key=lambda r: r['name'])[:80]:
        h = r['harness']
        samples.append({'harness': r['fq'] or r['name'], 'bounds': h.get('bounds'), 'shape': h.get('shape'),
                        'verdict': r['verdict'], 'cbmc_checks': r['checks'],
                        'covers': f"{r['covers_sat']}/{r['covers']}", 'solver_s': r['solver_s'],
                        'expect': h.get('expect', 'pass'),
                        'failed_checks': r['failed_checks'][:4] if r['failed_checks'] else None})
    assumptions = list(spec.get('assumptions', []))
    models, outside = list(spec.get('models', [])), list(spec.get('outside', []))
    for p in parts:
        if p is not spec:
            assumptions += p.get('assumptions', [])
            models += p.get('models', [])
            outside += p.get('outside', [])
    evidence = {
        'property_id': prop, 'tier': tier, 'seed': seed, 'level': 'model_checking',
        'coverage': {
            'evaluations': len(results),
            'distinct_nontrivial': len(nontrivial),
            'rule': 'one evaluation = one Kani/CBMC harness, i.e. one SAT query over ALL values of its symbolic '
                    'inputs within the stated bounds; non-trivial = verdict SUCCESSFUL with >=1 kani::cover! '
                    'witness and every witness SATISFIED; reachability twins (expect=fail) are not counted; '
                    'distinct by harness name',
            'samples': samples,
            'obligations': obligations,
            'discharged': discharged,
            'checker_cmd': 'cargo kani (0.68.0; CBMC 6.11.0; cadical) --harness <names> -j N --output-format terse '
                           '-Z stubbing, unwinding assertions on',
            'trusted_base': ['kani 0.68.0', 'cbmc 6.11.0', 'cadical'] + models,
            'engines': sorted({p['engine'] for p in parts}),
            'functions_encoded': funcs,
            'bounds': spec.get('bounds'),
            'outside_claim': outside,
            'cover_witnesses_satisfied': sum(r['covers_sat'] for r in results),
            'solver_time_s': round(sum((r['solver_s'] or 0) for r in results), 2),
            'build_s': round(build_s, 1),
            'known_findings_seen': [kf['id'] for _, kf in known],
            'exhaustive': False,
            'status': status,
        },
        'assumptions': assumptions,
        'wall_s': round(time.time() - t0, 1),
        'violations': len(reported),
    }
    if not args.no_evidence:
        json.dump(evidence, open(ev_path, 'w'), indent=1)
    log(f'[{prop}] {status}  ({evidence["wall_s"]}s, {len(results)} harnesses, {obligations} CBMC checks, '
        f'{evidence["coverage"]["cover_witnesses_satisfied"]} cover witnesses)')
    return rc


if __name__ == '__main__':
    sys.exit(main())
